"""C04 - executed events are independent of the compilation route and equal the events of the
source evaluated directly."""
import itertools

from vcommon import coqrun, events
from vcommon.coqrun import clist, cstr, cZ

from gen import kernels, move_native, move_prog, tweezer_prog
from props import tracer_common as tc

OPTS = ["fold", "aggressive", "typeinfer", "verify", "arch_spec"]


def all_routes():
    out = []
    for bits in itertools.product([True, False], repeat=5):
        o = dict(zip(OPTS, bits))
        out.append((o, None))
    base = dict(fold=True, aggressive=False, typeinfer=True, verify=True, arch_spec=False)
    out.append((base, "AggressiveUnroll"))
    out.append((dict(base, arch_spec=True), "AggressiveUnroll"))
    out.append((base, "rerun"))
    out.append((dict(base, arch_spec=True), "rerun"))
    return out


def covering_routes(rng):
    """strength-2 covering array over the five options + the post passes"""
    rows = [(True, True, True, True, True), (False, False, False, False, False), (True, False, True, False, True),
            (False, True, False, True, True), (True, True, False, False, False), (False, False, True, True, False),
            (True, False, False, True, False), (False, True, True, False, False)]
    out = [(dict(zip(OPTS, r)), None) for r in rows]
    base = dict(fold=True, aggressive=False, typeinfer=True, verify=True, arch_spec=False)
    out += [(base, "AggressiveUnroll"), (dict(base, arch_spec=True), "rerun")]
    return out


# ---------- program tree -> Coq term of Model.MoveLang ----------
def iexp_coq(src):
    src = src.strip()
    for op, c in ((" > ", "IGt"), (" < ", "ILt"), (" == ", "IEq")):
        if op in src:
            a, b = src.split(op)
            return f"({c} {iexp_coq(a)} {iexp_coq(b)})"
    if src in ("True", "False"):
        return f"(ILit {1 if src == 'True' else 0})"
    if src.lstrip("-").isdigit():
        return f"(ILit ({src})%Z)"
    return f"(IVar {cstr(src)})"


def arg_coq(a):
    if a[0] == "var":
        return f"(AInt (IVar {cstr(a[1])}))"
    v = a[1]
    if isinstance(v, bool):
        return f"(ABool (ILit {1 if v else 0}))"
    if isinstance(v, float):
        return f"(AFloat {cstr(repr(v))})"
    return f"(AInt (ILit ({v})%Z))"


def subarg_coq(a):
    if a[0] == "var":
        return f"(IVar {cstr(a[1])})"
    v = a[1]
    return f"(ILit {1 if v else 0})" if isinstance(v, bool) else f"(ILit ({v})%Z)"


def dexp_coq(c):
    if c.startswith("schedule.reverse("):
        return f"(DRev {dexp_coq(c[len('schedule.reverse('):-1])})"
    return f"(DVar {cstr(c)})"


def call_parts(st):
    _, callee, pos, kws = st
    return (dexp_coq(callee), clist([arg_coq(a) for a in pos]), clist([f"({cstr(k)}, {arg_coq(v)})" for k, v in kws]))


def bstmt_coq(st):
    if st[0] == "call":
        d, p, k = call_parts(st)
        return f"BCall {d} {p} {k}"
    return f"BBlock {clist([bstmt_coq(c) for c in st[2]])}"


def stmt_coq(st, closures):
    k = st[0]
    if k == "call":
        d, p, kw = call_parts(st)
        return [f"SCall {d} {p} {kw}"]
    if k == "block":
        return [f"SBlock {clist([bstmt_coq(c) for c in st[2]])}"]
    if k == "gate":
        return [f"SOther {cstr({'top_hat_cz': 'cz'}.get(st[1], st[1]))}"]
    if k in ("fill", "measure"):
        return [f"SOther {cstr(k)}"]
    if k == "if":
        return [f"SIf {iexp_coq(st[1])} {stmts_coq(st[2], closures)} {stmts_coq(st[3], closures)}"]
    if k == "for":
        return [f"SFor {cstr(st[1])} {iexp_coq(st[2])} {stmts_coq(st[3], closures)}"]
    if k == "sub":
        return [f"SSub {cstr(st[1])} {clist([subarg_coq(a) for a in st[2]])}"]
    if k == "ret":
        return ["SRet"]
    if k == "closure":
        closures.append((st[1], st[2], st[3]))
        return []
    raise ValueError(k)


def stmts_coq(stmts, closures):
    out = []
    for s_ in stmts:
        out += stmt_coq(s_, closures)
    return clist(out)


def prog_coq(prog):
    closures = []
    body = stmts_coq(prog.body, closures)
    subs = [(n, ps, b) for n, ps, b in prog.subs] + closures
    devs = clist([f"({cstr(v)}, ({cstr(k)}, {'true' if r else 'false'}))" for v, k, r in prog.devs])
    sigs = clist([f"({cstr(k)}, {clist([cstr(x) for x in move_prog.TWEEZERS[k][2]])})" for k in move_prog.TWEEZERS])
    subs_c = clist([f"({cstr(n)}, mksub {clist([cstr(p) for p, _ in ps])} {stmts_coq(b, [])})" for n, ps, b in subs])
    extra = [cstr("ci"), cstr("cz")] if prog.spec_consts else []       # int constants of the spec: extra inputs of the model
    return f"(mkprog {devs} {sigs} {subs_c} {clist([cstr(p) for p, _ in prog.params] + extra)} {body})"


def route_name(o, post):
    s = ",".join(f"{k}={'S' if (k == 'arch_spec' and o[k]) else o[k]}" for k in OPTS)
    return s + (f"+{post}" if post else "")


def compile_route(src, o, post, S, kernel_ns):
    from bloqade.shuttle.passes.fold import AggressiveUnroll
    from bloqade.shuttle.prelude import move
    kw = dict(fold=o["fold"], aggressive=o["aggressive"], typeinfer=o["typeinfer"], verify=o["verify"])
    dec = "@move(" + ", ".join(f"{k}={v}" for k, v in kw.items()) + (", arch_spec=S" if o["arch_spec"] else "") + ")"
    tw, mv = move_native.split_source(src)
    # subroutines keep the default pipeline; the option set applies to the kernel under test
    parts = mv.rsplit("@move", 1)
    msrc = parts[0] + dec + parts[1]
    m = kernels.define(msrc, S=S, **kernel_ns)["main"]
    if post == "AggressiveUnroll":
        AggressiveUnroll(move)(m)
    elif post == "rerun":
        move.run_pass(m, arch_spec=S if o["arch_spec"] else None)
    return m


def run_route(m, o, args, S):
    return events.run_events(m, args, S, plain=o["arch_spec"])


def text_of(evs):
    return events.events_text(evs, tc.PosTable())


def other_spec():
    """same zone / constant names as the harness spec, different geometry and values"""
    from bloqade.geometry.dialects.grid import Grid
    from bloqade.shuttle.arch import ArchSpec, Layout
    traps = Grid.from_positions([100.0, 103.0, 107.0, 112.0], [50.0, 52.0, 55.0])
    aux = Grid.from_positions([-20.0, -18.5, -17.0], [1.0, 2.5, 3.0, 4.0])
    park = Grid.from_positions([-40.0, -38.0], [0.5, 1.5])
    lay = Layout(static_traps={"traps": traps, "aux": aux}, fillable={"traps"}, has_cz={"traps"}, has_local={"aux"}, special_grid={"park": park})
    return ArchSpec(layout=lay, float_constants={"pitch": 0.75, "dup": 3.25, "origin": 0.5}, int_constants={"rows": 4, "dup": 1, "zero": 3})


def compilation_histories(ctx, S, nprog):
    """the subroutines of a program are defined ONCE and shared by two compilations of its kernel: first with another spec,
    then on a route with the spec under test; the events must still be those of the source under the spec under test"""
    S2 = other_spec()
    n_ok = 0
    for i in range(nprog):
        prog = move_prog.gen_move_prog(ctx.rng, autos=False, subs=True, spec_consts=True)
        if not prog.subs:
            continue
        src = move_prog.render(prog)
        nsrc = move_prog.render(prog, native_markers=True)
        tw, mv = move_native.split_source(src)
        subs_src, main_src = mv.rsplit("@move", 1)
        try:
            kernel_ns = {k: v for k, v in kernels.define(tw).items() if k in move_prog.TWEEZERS}
            shared = {k: v for k, v in kernels.define(subs_src, S=S, **kernel_ns).items() if k in {n for n, _, _ in prog.subs}}
            kernels.define("@move(arch_spec=S)" + main_src, S=S2, **kernel_ns, **shared)            # first compilation: the other spec
        except Exception as e:
            ctx.hist("compilation_histories", "definition error " + type(e).__name__)
            continue
        for dec, plain, label in (("@move", False, "run-time spec"), ("@move(arch_spec=S)", True, "compile-time spec")):
            try:
                m = kernels.define(dec + main_src, S=S, **kernel_ns, **shared)["main"]
            except Exception as e:
                ctx.fail({"kind": "route-refuses-to-compile", "history": "after a compilation with another spec", "error": type(e).__name__},
                         {"src": src, "route": label}, f"{label}: compiling after the same subroutines were used by a compilation with another spec raises {type(e).__name__}")
                continue
            for args in prog.arg_tuples[:2]:
                ref = move_native.run_native(nsrc, args, S, kernel_ns=kernel_ns)
                if ref[0] != "ok":
                    continue
                st, evs, extra = events.run_events(m, args, S, plain=plain)
                ctx.evaluations += 1
                if st != "ok" or text_of(evs) != text_of(ref[1]):
                    ctx.fail({"kind": "events-depend-on-compilation-history", "route": label},
                             {"src": src, "args": repr(args), "history": ["define subroutines once", "compile kernel with ANOTHER spec", f"compile kernel again ({label}) and run with the spec under test"]},
                             f"{label}: after the kernel's subroutines were shared with a compilation for another spec, args {args} execute {len(evs)} events that differ from the source under the spec under test")
                else:
                    n_ok += 1
    ctx.count("compilation histories sharing subroutines across two specs: agree", n_ok)


def default_spec_history(ctx, kernel_ns):
    """the architecture a user gets from ArchSpec() with no arguments: a program compiled with it and without it, then ANOTHER default
    spec is created and extended in place (the idiom of gemini.logical.get_spec), then both kernels run for the first, untouched spec"""
    from bloqade.geometry.dialects.grid import Grid
    from bloqade.shuttle.arch import ArchSpec
    S0 = ArchSpec()
    zone0 = S0.layout.static_traps.get("traps")
    src = ("@move{DEC}\ndef main(n: int):\n    z = spec.get_static_trap(zone_id=\"traps\")\n    init.fill([z])\n    gate.top_hat_cz(z)\n"
           "    i = 0\n    for i in range(n):\n        gate.local_rz(0.5, z[0:2, 0:1])\n")
    try:
        ms = {dec: kernels.define(src.replace("{DEC}", dec), S=S0, **kernel_ns)["main"] for dec in ("", "(arch_spec=S)", "(arch_spec=S, fold=False)", "(fold=False)")}
        other = ArchSpec()
        other.layout.static_traps["traps"] = Grid.from_positions([500.0, 501.0, 502.0, 503.0], [70.0, 71.0])
        other.layout.static_traps["extra"] = Grid.from_positions([900.0], [900.0])
        other.float_constants["pitch"] = 1.0
    except Exception as e:
        ctx.obligation("the default architecture can be used", False, f"{type(e).__name__}: {e}"[:200])
        return
    want_zone = tc.PosTable().show(zone0) if zone0 is not None else "?"
    for dec, m in ms.items():
        st, evs, extra = events.run_events(m, (2,), S0, plain="arch_spec" in dec)
        ctx.evaluations += 1
        got = text_of(evs)
        want = [f"fill [{want_zone}]"] + [t for t in got[1:2]] + got[2:]
        ok = st == "ok" and len(got) == 4 and got[0] == f"fill [{want_zone}]" and got[1].startswith(f"cz {want_zone} ")
        if not ok:
            ctx.fail({"kind": "events-depend-on-compilation-history", "route": "default ArchSpec()" + dec, "history": "another default spec extended in place"},
                     {"default_spec_src": src.replace("{DEC}", dec), "history": ["S0 = ArchSpec()", "compile with and without arch_spec=S0", "other = ArchSpec(); other.layout.static_traps['traps'] = <another grid>", "run for S0"]},
                     f"@move{dec} compiled for the default ArchSpec(): after ANOTHER default spec was extended in place the kernel run for the first one executes "
                     f"{(got[0] if got else extra)[:100]} instead of filling the default zone {want_zone[:60]}")
        else:
            ctx.nt(("default-spec", dec))
    if S0.layout.static_traps.get("traps") is not zone0 or "extra" in S0.layout.static_traps or "pitch" in S0.float_constants:
        ctx.fail({"kind": "events-depend-on-compilation-history", "route": "default ArchSpec()", "history": "two default specs share tables"},
                 {"default_spec_src": src, "history": ["S0 = ArchSpec()", "other = ArchSpec(); extend other in place", "look at S0"]},
                 "two specs built by ArchSpec() share their tables: extending one in place changed the other")


def twin_device_functions(ctx, S, kernel_ns):
    """several device functions built from ONE tweezer kernel with different tone lists, called with equal arguments in the same
    direction (forward and reversed, straight-line and in a loop): every route plays, for each call, the tones written in the source"""
    src = ("def main(n: int):\n"
           "    fa = schedule.device_fn(k0, [0, 1], [0])\n    fb = schedule.device_fn(k0, [2, 3], [1])\n"
           "    fc = schedule.device_fn(k2, [0], [0])\n    fd = schedule.device_fn(k2, [4], [2])\n"
           "    fa(1.0, 2.0)\n    fb(1.0, 2.0)\n    rb = schedule.reverse(fb)\n    rb(1.0, 2.0)\n    schedule.reverse(fa)(1.0, 2.0)\n"
           "    i = 0\n    for i in range(n):\n        fd(3.0, 0.5)\n        fc(3.0, 0.5)\n    fb(b=2.0, a=1.0)\n")
    want = lambda n: ([([0, 1], [0]), ([2, 3], [1]), ([2, 3], [1]), ([0, 1], [0])] + [([4], [2]), ([0], [0])] * n + [([2, 3], [1])])
    logs = {}
    for dec, plain, post, label in (("@move", False, None, "run-time spec"), ("@move(fold=False)", False, None, "run-time spec, fold=False"),
                                    ("@move(aggressive=True)", False, None, "run-time spec, aggressive"),
                                    ("@move(typeinfer=False, verify=False)", False, None, "run-time spec, no type inference"),
                                    ("@move", False, "rerun", "run-time spec, pipeline applied again"),
                                    ("@move(arch_spec=S)", True, None, "compile-time spec"),
                                    ("@move(arch_spec=S, fold=False)", True, None, "compile-time spec, fold=False")):
        for n in (0, 2):
            ctx.evaluations += 1
            rep = {"twin_src": dec + "\n" + src, "route": label, "n": n}
            try:
                m = kernels.define(dec + "\n" + src, S=S, **kernel_ns)["main"]
                if post == "rerun":
                    from bloqade.shuttle.prelude import move
                    move.run_pass(m)
                st, evs, extra = events.run_events(m, (n,), S, plain=plain)
            except Exception as e:
                st, evs, extra = "err", [], f"{type(e).__name__}: {e}"
            tones = [(list(e[1].x_tones), list(e[1].y_tones)) for e in evs if e[0] == "play" and hasattr(e[1], "x_tones")]
            logs[(label, n)] = text_of(evs)
            if st != "ok" or tones != want(n):
                k = next((j for j in range(min(len(tones), len(want(n)))) if tones[j] != want(n)[j]), min(len(tones), len(want(n))))
                ctx.fail({"kind": "events-differ", "route": label, "scenario": "device functions of one kernel with different tones"}, rep,
                         f"{label}: call {k} plays tones {tones[k] if k < len(tones) else None} where the source says {want(n)[k] if k < len(want(n)) else None} ({str(extra)[:80]})")
            else:
                ctx.nt(("twin-device-fns", label, n))
    for n in (0, 2):
        if len({tuple(v) for (l, k), v in logs.items() if k == n}) > 1:
            ctx.fail({"kind": "events-differ", "scenario": "device functions of one kernel with different tones", "symptom": "routes disagree"}, {"twin_src": src, "n": n},
                     "the routes execute different events for device functions that share a kernel and differ in their tones")
    ctx.count("device functions of one kernel with different tones: routes x trip counts", len(logs))


def same_name_subroutines(ctx, S, kernel_ns):
    """two DIFFERENT subroutines that carry the same name (e.g. produced by a factory), both called by one kernel"""
    pro = '    z0 = spec.get_static_trap(zone_id="traps")\n    f0 = schedule.device_fn(k0, [0, 1], [0])\n'
    a = kernels.define("@move\ndef layer(k: int):\n" + pro + "    gate.global_rz(0.25)\n    f0(1.0, 2.0)\n", S=S, **kernel_ns)["layer"]
    b = kernels.define("@move\ndef layer(k: int):\n" + pro + "    gate.local_rz(0.75, z0)\n", S=S, **kernel_ns)["layer"]
    main_src = "def main(n: int):\n    la(n)\n    lb(n)\n    la(n)\n"
    want_kinds = ["global_rz", "play", "local_rz", "global_rz", "play"]
    logs = {}
    for dec, plain, label in (("@move", False, "run-time spec"), ("@move(arch_spec=S)", True, "compile-time spec"),
                              ("@move(arch_spec=S, fold=False)", True, "compile-time spec, fold=False")):
        try:
            m = kernels.define(dec + "\n" + main_src, S=S, la=a, lb=b, **kernel_ns)["main"]
            st, evs, extra = events.run_events(m, (1,), S, plain=plain)
        except Exception as e:
            st, evs, extra = "err", [], f"{type(e).__name__}: {e}"
        ctx.evaluations += 1
        kinds = [e[0] for e in evs]
        logs[label] = text_of(evs)
        if st != "ok" or kinds != want_kinds:
            ctx.fail({"kind": "events-differ", "route": label, "scenario": "two subroutines with one name"},
                     {"src": "layer#1: global_rz(0.25); f0(1.0, 2.0)\nlayer#2: local_rz(0.75, z0)\n" + main_src, "route": label},
                     f"{label}: a kernel calling two different subroutines that are both named 'layer' executes {kinds} instead of {want_kinds} ({extra})")
    if len({tuple(v) for v in logs.values()}) > 1:
        ctx.fail({"kind": "events-differ", "scenario": "two subroutines with one name", "symptom": "routes disagree"}, {"src": main_src},
                 "the routes execute different events for a kernel calling two different subroutines of the same name")


HEUR = {}        # program term -> {subroutine: AggressiveUnroll.inline_heuristic(code)}


# ---------- fixed programs whose event COUNT or zone operands depend on shapes and on which of two equal-looking zones is taken ----------
KIDLE_SRC = ("@tweezer\ndef kidle(a: float, b: float):\n    g = grid.from_positions([a, a + 1.0], [b, b + 2.0])\n    action.set_loc(g)\n    action.turn_on(action.ALL, [0])\n"
               "    action.move(grid.shift(g, 0.5, 0.0))\n    action.turn_on([], [1])\n    action.move(grid.shift(g, 0.5, 1.0))\n    action.turn_on([0, 1], [1])\n    action.turn_off([1], [])\n"
               "    action.move(grid.shift(g, 1.5, 1.0))\n    action.turn_off([0], action.ALL)\n    action.turn_on([0], action.ALL)\n    action.move(grid.shift(g, 2.0, 1.0))\n"
               "    action.turn_off(action.ALL, [1])\n    action.turn_off(action.ALL, action.ALL)\n"
               # tones selected by a parameter WITHOUT an annotation: one statement that records a slice form in one call and a list form in another
               "@tweezer\ndef ktone(sel, a: float):\n    g = grid.from_positions([a, a + 1.0, a + 2.0], [0.0, 3.0])\n    action.set_loc(g)\n    action.turn_on(sel, action.ALL)\n"
               "    action.move(grid.shift(g, 0.0, 1.0))\n    action.turn_off(sel, [0])\n    action.turn_off(action.ALL, sel)\n")

SHAPE_PROGS = {
    # a device function SELECTED BY A RUN-TIME BRANCH between two that share the kernel and differ in one tone list only (constant
    # propagation joins the two branch values: they must not be taken for one constant)
    "branch-selected-device-function": ("(zone: grid.Grid[Literal[3], Literal[2]], c: bool)", """
    if c:
        f = schedule.device_fn(k0, [0, 1], [0])
    else:
        f = schedule.device_fn(k0, [0, 1], [1])
    f(1.0, 2.0)
    gate.global_rz(0.5)
    if c:
        g = schedule.device_fn(k0, [1, 0], [0])
    else:
        g = schedule.device_fn(k0, [0, 1], [0])
    g(1.0, 2.0)
    schedule.reverse(f)(1.0, 2.0)
    if c:
        h = schedule.device_fn(k0, [0, 1], [0])
    else:
        h = schedule.device_fn(k1, [0, 1], [0])
    gate.global_rz(0.25)
    schedule.reverse(g)(2.0, 1.0)
"""),
    # a filled register over a NON-SQUARE zone tiled in both directions, flowing into a fill and gates
    "tiled-filled-register": ("(zone: grid.Grid[Literal[3], Literal[2]], c: bool)", """
    z = spec.get_static_trap(zone_id="traps")
    reg = filled.vacate(z, [(0, 1), (3, 2)])
    t = filled.repeat(reg, 1, 2, 0.0, 20.0)
    init.fill([t])
    gate.local_rz(0.5, t)
    u = filled.repeat(reg, 2, 1, 30.0, 0.0)
    if c:
        u = filled.repeat(filled.vacate(zone, [(2, 0)]), 2, 3, 50.0, 20.0)
    gate.top_hat_cz(u)
    gate.local_r(0.25, 0.5, grid.shift(filled.repeat(reg, 2, 2, 30.0, 20.0), 1.0, 1.0))
"""),
    # views of a filled register taken with index lists that REPEAT a column, flowing into a fill and gates
    "views-of-a-filled-register-with-repeated-indices": ("(zone: grid.Grid[Literal[3], Literal[2]], c: bool)", """
    z = spec.get_static_trap(zone_id="traps")
    reg = filled.vacate(z, [(0, 1), (2, 0)])
    v = grid.sub_grid(reg, [0, 0, 2], [0, 1])
    init.fill([v])
    gate.local_rz(0.5, v)
    w = grid.sub_grid(reg, [2, 2], [0, 1])
    if c:
        w = grid.sub_grid(reg, [0, 2, 2], [1])
    gate.top_hat_cz(w)
    gate.local_r(0.25, 0.5, grid.sub_grid(filled.fill(z, [(0, 0), (3, 2)]), [3, 0, 0], [2, 2]))
"""),
    # one device kernel whose tone selection is an unannotated parameter: given a slice in one call and an index list in the next
    "tone-selection-slice-then-list": ("(zone: grid.Grid[Literal[3], Literal[2]], c: bool)", """
    f = schedule.device_fn(ktone, [0, 1, 2], [0, 1])
    f(ALL_TONES, 1.0)
    f([0, 1], 2.0)
    schedule.reverse(f)([0], 0.5)
    if c:
        f(ALL_TONES, 3.0)
    with schedule.parallel():
        f([0, 1], 4.0)
        schedule.reverse(f)(ALL_TONES, 5.0)
"""),
    # a subroutine that hands back one of two closures, the acting one from inside a branch (an early return); the kernel calls what it got
    "closure-picked-by-early-return": ("(zone: grid.Grid[Literal[3], Literal[2]], c: bool)", """
    f = schedule.device_fn(kidle, [0, 1], [0, 1])
    f(1.0, 2.0)
    g = pick(c)
    r = g(2)
    gate.global_rz(0.25)
    f(0.5, 0.5)
""", """@move
def pick(c: bool):
    def act(k: int):
        gate.global_r(0.5, 1.0)
        return k
    def idle(k: int):
        return k + 1
    if c:
        #EARLY
        return act
    return idle

"""),
    # a device kernel whose tone switches select nothing on one axis (forward, reversed, in a group)
    "idle-tone-switches": ("(zone: grid.Grid[Literal[3], Literal[2]], c: bool)", """
    f = schedule.device_fn(kidle, [0, 1], [0, 1])
    f(1.0, 2.0)
    schedule.reverse(f)(0.5, 0.25)
    with schedule.parallel():
        f(b=3.0, a=4.0)
        schedule.reverse(f)(2.0, b=1.0)
    if c:
        f(0.0, 0.0)
"""),
    # every way of writing the two buffers of top_hat_cz (positional, keyword, mixed, either order)
    "top-hat-cz-call-forms": ("(zone: grid.Grid[Literal[3], Literal[2]], c: bool)", """
    z = spec.get_static_trap(zone_id="traps")
    gate.top_hat_cz(z)
    gate.top_hat_cz(z, 1.5)
    gate.top_hat_cz(z, 1.5, 2.5)
    gate.top_hat_cz(z, upper_buffer=1.25)
    gate.top_hat_cz(z, lower_buffer=2.25)
    gate.top_hat_cz(z, 1.75, lower_buffer=2.75)
    gate.top_hat_cz(z, lower_buffer=0.5, upper_buffer=4.5)
    if c:
        gate.top_hat_cz(zone, 0.25, lower_buffer=0.75)
    gate.local_r(0.5, 0.25, z)
    gate.local_r(rotation_angle=0.25, axis_angle=0.5, zone=z)
    gate.local_rz(zone=z, rotation_angle=0.125)
    gate.global_r(rotation_angle=0.375, axis_angle=0.625)
"""),
    # loop bounds taken from the length of a grid the type checker knows the literal shape of (a 3 x 2 zone passed as an argument)
    "lengths-of-typed-grids": ("(zone: grid.Grid[Literal[3], Literal[2]], c: bool)", """
    reg = filled.vacate(zone, [(0, 0)])
    init.fill([reg])
    par = filled.get_parent(reg)
    i = 0
    for i in range(len(grid.get_xpos(par))):
        gate.local_rz(0.25 * i, grid.sub_grid(par, [i], [0, 1]))
    for i in range(len(grid.get_ypos(par))):
        gate.local_r(0.5, 0.125 * i, grid.sub_grid(par, [0, 1, 2], [i]))
    for i in range(len(grid.get_xpos(reg))):
        gate.global_rz(1.0 * i)
    for i in range(len(grid.get_ypos(filled.fill(reg, [(0, 0)])))):
        gate.global_r(0.5, 1.0 * i)
    sh = filled.shift(reg, 1.0, 2.0)
    for i in range(len(grid.get_xpos(filled.get_parent(sh)))):
        gate.local_rz(0.5 * i, sh)
    rp = filled.repeat(reg, 2, 1, 50.0, 50.0)
    for i in range(len(grid.get_xpos(rp))):
        gate.global_rz(0.5 + i)
    for i in range(len(grid.get_ypos(filled.get_parent(rp)))):
        gate.global_rz(0.75 + i)
"""),
    # a run-time branch between a zone and the SAME zone with masked sites, both compile-time constants on some routes
    "zone-or-its-masked-copy": ("(zone: grid.Grid[Literal[3], Literal[2]], c: bool)", """
    z = spec.get_static_trap(zone_id="traps")
    if c:
        r = filled.vacate(z, [(1, 1)])
    else:
        r = z
    init.fill([r])
    gate.local_rz(0.5, r)
    q = filled.vacate(z, [(0, 0)])
    if c:
        q = filled.vacate(z, [(0, 0), (2, 1)])
    gate.local_r(0.25, 0.5, q)
    e = filled.fill(z, [(0, 0), (0, 1), (0, 2), (1, 0), (1, 1), (1, 2), (2, 0), (2, 1), (2, 2), (3, 0), (3, 1), (3, 2)])
    if c:
        e = z
    gate.top_hat_cz(e)
"""),
}


def shape_programs(ctx, S, kernel_ns):
    """the fixed programs above on every route (all 36 + AggressiveUnroll to a fixpoint), arguments: a 3 x 2 zone and both truth values"""
    from bloqade.geometry.dialects.grid import Grid
    from bloqade.shuttle.passes.fold import AggressiveUnroll
    from bloqade.shuttle.prelude import move
    zone = Grid.from_positions([0.0, 10.0, 20.0], [0.0, 5.0])
    n = 0
    for name, prog in SHAPE_PROGS.items():
        sig, body = prog[0], prog[1]
        src = (prog[2] if len(prog) > 2 else "") + "@move\ndef main" + sig + ":" + body
        for c in (True, False):
            args = (zone, c)
            ref = move_native.run_native(src.replace("#EARLY", "__mark_early_return__()"), args, S, kernel_ns=kernel_ns)
            if ref[0] != "ok" or len(ref[1]) < 3:
                ctx.obligation(f"the fixed program {name} runs natively", False, str(ref[-1])[:200])
                continue
            want = text_of(ref[1])
            for o, post in all_routes() + [(dict(fold=True, aggressive=False, typeinfer=True, verify=True, arch_spec=a), "AggressiveUnroll-fixpoint") for a in (False, True)]:
                rn = route_name(o, post)
                ctx.evaluations += 1
                n += 1
                try:
                    if post == "AggressiveUnroll-fixpoint":
                        m = compile_route(src, o, None, S, kernel_ns)
                        AggressiveUnroll(move).fixpoint(m)
                    else:
                        m = compile_route(src, o, post, S, kernel_ns)
                    st, evs, extra = run_route(m, o, args, S)
                except Exception as e:
                    st, evs, extra = "err", [], f"{type(e).__name__}: {e}"
                got = text_of(evs)
                if st != "ok" or got != want:
                    k = next((j for j in range(min(len(got), len(want))) if got[j] != want[j]), min(len(got), len(want)))
                    symptom = "fewer events" if len(got) < len(want) else "more events" if len(got) > len(want) else "different event"
                    if st == "ok" and k in ref[3]:
                        symptom = "diverges-at-early-return-of-subroutine"
                    ctx.fail({"kind": "events-differ", "program": name, "route": rn, "fold": bool(o["fold"]), "c": c, "aggressive_option": bool(o["aggressive"]),
                              "post_pass": post, "symptom": symptom}, {"shape_prog": name, "route": rn, "c": c},
                             f"fixed program {name} (c={c}) on route {rn}: {len(got)} events vs {len(want)} in the source evaluation; first difference at {k}: "
                             f"{(got[k] if k < len(got) else '<none>')[:100]} vs {(want[k] if k < len(want) else '<none>')[:100]}" + (f" ({str(extra)[:100]})" if st != "ok" else ""))
                else:
                    ctx.nt(("shape-prog", name, c, rn))
    ctx.count("fixed shape / masked-zone programs x routes", n)


def run(ctx):
    S = tweezer_prog.harness_spec()
    HEUR.clear()
    ctx.rule = ("move programs (device calls, parallel blocks, five gate kinds with distinct parameters, fills, measurements, for/if, subroutines with "
                "and without early return, closures) x argument tuples over ints 0..3 and bools x compilation routes: the 2^5 decorator "
                "combinations fold/aggressive/typeinfer/verify/arch_spec, AggressiveUnroll, and the pipeline applied twice (quick: a strength-2 "
                "covering array of 10 routes; thorough: all 36); every log is compared with the program's source evaluated natively; "
                "non-trivial = distinct (program, args) whose reference log has >= 2 events")
    routes = covering_routes(ctx.rng) if ctx.quick else all_routes()
    ctx.count("routes", len(routes))
    tw_src = "".join(f"@tweezer\ndef {n}{sig}:{body}\n" for n, (sig, body, _) in move_prog.TWEEZERS.items())
    # two more device kernels for the fixed programs: tone switches that select NOTHING on one axis, and one that keeps its tones on
    tw_src += KIDLE_SRC
    all_kernels = kernels.define(tw_src)
    kernel_ns = {k: v for k, v in all_kernels.items() if k in move_prog.TWEEZERS or k in ("kidle", "ktone")}
    move_native.register_kernels(tw_src, kernel_ns)
    kernel_ns["ALL_TONES"] = slice(None)            # a tone selection "all of them", held as a constant by the programs that use it
    nprog = ctx.pick(40, 400)
    ntup = ctx.pick(3, 5)
    labels_cases = []
    for i in range(nprog):
        prog = move_prog.gen_move_prog(ctx.rng, autos=False, subs=True, spec_consts=True)
        for t in prog.tags:
            ctx.hist("program_features", t)
        src = move_prog.render(prog)
        nsrc = move_prog.render(prog, native_markers=True)
        argsets = list(prog.arg_tuples)
        while len(argsets) < ntup:
            argsets.append(tuple((ctx.rng.choice([0, 1, 2, 3]) if a == "int" else ctx.rng.random() < 0.5) for _, a in prog.params))
        argsets = list(dict.fromkeys(argsets))
        refs = {}
        pc = prog_coq(prog)
        # what AggressiveUnroll's inline heuristic says about each subroutine of this program
        try:
            from bloqade.shuttle.passes.fold import AggressiveUnroll
            sub_ns = kernels.define(move_native.split_source(src)[1], S=S, **kernel_ns)
            HEUR[pc] = {name: bool(AggressiveUnroll.inline_heuristic(sub_ns[name].code)) for name, _, _ in prog.subs}
        except Exception as e:
            ctx.obligation("inline heuristic can be evaluated on the generated subroutines", False, f"{type(e).__name__}: {e}"[:200])
        for args in argsets:
            r = move_native.run_native(nsrc, args, S, kernel_ns=kernel_ns)
            refs[args] = r
            ctx.hist("reference", "runs" if r[0] == "ok" else "raises")
            zargs = clist([cZ(int(a)) for a in args] + ([cZ(S.int_constants["dup"]), cZ(S.int_constants["zero"])] if prog.spec_consts else []))
            labels_cases.append((pc, zargs, " | ".join(r[2]) if r[0] == "ok" else "ERR", src, args))
        if i < 2:
            a0 = argsets[0]
            ctx.sample({"program": src.split("@tweezer")[0] + src[src.index("@move"):], "args": repr(a0), "reference_events": refs[a0][2]})
        for o, post in routes:
            rn = route_name(o, post)
            try:
                m = compile_route(src, o, post, S, kernel_ns)
            except Exception as e:
                ok_any = any(r[0] == "ok" for r in refs.values())
                ctx.evaluations += 1
                if ok_any:
                    ctx.fail({"kind": "route-refuses-to-compile", "route": rn, "error": type(e).__name__},
                             {"src": src, "route": rn}, f"route {rn} refuses to compile a program the reference runs: {type(e).__name__}: {str(e)[:150]}")
                ctx.hist("route_outcome", "compile error")
                continue
            for args in argsets:
                ref = refs[args]
                if ref[0] != "ok":
                    continue
                ctx.evaluations += 1
                st, evs, extra = run_route(m, o, args, S)
                want = text_of(ref[1])
                got = text_of(evs)
                if len(want) >= 2:
                    ctx.nt((i, args))
                if st != "ok" or got != want:
                    k = next((j for j in range(min(len(got), len(want))) if got[j] != want[j]), min(len(got), len(want)))
                    symptom = "fewer events" if len(got) < len(want) else "more events" if len(got) > len(want) else "different event"
                    if st == "ok" and k in ref[3]:
                        # the logs agree up to the point where a subroutine took an early return and part ways exactly there
                        # (the log is truncated there, or continues in an enclosing closure that the return was inlined into)
                        symptom = "diverges-at-early-return-of-subroutine"
                    ctx.fail({"kind": "events-differ", "aggressive_option": o["aggressive"], "post_pass": post, "symptom": symptom, "route": rn},
                             {"src": src, "route": rn, "args": repr(args), "expected": ref[2], "got_events": len(got)},
                             f"route {rn} args {args}: {len(got)} events vs {len(want)} in the source evaluation; first difference at {k}: "
                             f"{(got[k] if k < len(got) else '<none>')[:100]} vs {(want[k] if k < len(want) else '<none>')[:100]}" + (f" ({extra})" if st != 'ok' else ''))
                    ctx.hist("route_outcome", "differs")
                else:
                    ctx.hist("route_outcome", "agrees")
    compilation_histories(ctx, S, ctx.pick(10, 80))
    same_name_subroutines(ctx, S, kernel_ns)
    twin_device_functions(ctx, S, kernel_ns)
    default_spec_history(ctx, kernel_ns)
    shape_programs(ctx, S, kernel_ns)
    # ---- Coq: the source-level semantics of Model.MoveLang on the same programs ----
    byprog = {}
    for c in labels_cases:
        byprog.setdefault(c[0], []).append(c)
    groups = list(byprog.items())
    chunks = [groups[i:i + 12] for i in range(0, len(groups), 12)]
    bodies = []
    for k, ch in enumerate(chunks):
        b = "From BS Require Import Core.Show Core.Base Model.MoveLang.\n"
        evals = []
        for j, (pc, cs) in enumerate(ch):
            b += f"Definition p{j} := {pc}.\n"
            evals += [f"show_run (run_prog 300 p{j} {c[1]})" for c in cs]
        b += "Eval vm_compute in (lines %s).\n" % clist(evals)
        b += ("Definition heur (p : prog) : string := sep_by \",\" (map (fun sb => (fst sb ++ \":\" ++ show_bool (nested_ret_free (sub_body (snd sb))))%%string) (subs p)).\n"
              "Eval vm_compute in (lines %s)." % clist([f"heur p{j}" for j in range(len(ch))]))
        bodies.append((f"src_{k}", b))
    mism, hmis, nh = [], [], 0
    for ch, (ok, vals, log) in zip(chunks, coqrun.eval_many(ctx.bdir, bodies)):
        flat = [c for _, cs in ch for c in cs]
        if not ok or len(vals) != 2 or len(vals[0]) != len(flat) or len(vals[1]) != len(ch):
            ctx.obligation("coqc source-semantics file evaluates", False, log[-800:])
            continue
        for (pc, cs), hl in zip(ch, vals[1]):
            model = dict(x.split(":") for x in hl.split(",") if ":" in x)
            for name, py in HEUR.get(pc, {}).items():
                nh += 1
                if model.get(name) != ("T" if py else "F"):
                    hmis.append({"subroutine": name, "inline_heuristic(code)": py, "model nested_ret_free": model.get(name), "src": cs[0][3][cs[0][3].index("@move"):][:600]})
        for c, line in zip(flat, vals[0]):
            if line != c[2]:
                mism.append({"model": line[:300], "native": c[2][:300], "args": repr(c[4]), "src": c[3][c[3].index("@move"):][:800]})
    ctx.correspondence("Model.MoveLang.run_prog (source semantics in Coq) vs the source evaluated natively (event labels)", len(labels_cases), mism)
    ctx.correspondence("AggressiveUnroll.inline_heuristic(code of each generated subroutine) = Model.MoveLang.nested_ret_free (the heuristic "
                       "that theorem C04_heuristic_inlining_preserves_events is about)", nh, hmis)
    reflect_purity(ctx)
    ctx.explanation = ("Theorems: DCE/CSE/constant-folding over an abstract SSA program preserve the executed event list whenever the purity table is "
                       "sound; the purity table of every statement class of the move dialect group is reflected from the live code and re-checked; the "
                       "route-independence itself (kirin's Default/Fold/Inline/UnrollScf passes and interpreter) is exercised by the differential against "
                       "the source evaluated natively, not proved.")


def reflect_purity(ctx):
    """traits of every statement class of the dialects of the move group"""
    from kirin import ir
    from bloqade.shuttle.prelude import move
    rows = []
    emitting = {"Play", "TopHatCZ", "LocalR", "LocalRz", "GlobalR", "GlobalRz", "Fill", "Measure"}
    ours = {"path", "schedule", "gate", "init", "bloqade.shuttle.measure", "qourier.spec", "shuttle.filled", "grid"}
    for d in sorted(move.data, key=lambda d: d.name):
        if d.name not in ours:
            continue
        for st in d.stmts:
            pure = st.has_trait(ir.Pure) if hasattr(st, "has_trait") else any(isinstance(t, ir.Pure) for t in st.traits)
            rows.append((d.name, st.__name__, bool(pure), st.__name__ in emitting and d.name in ("path", "gate", "init", "bloqade.shuttle.measure")))
    body = coqrun.HEADER + "From BS Require Import Model.Passes.\n"
    body += "Definition table : list (string * bool * bool) := " + clist(
        [f"({cstr(d + '.' + n)}, {'true' if p else 'false'}, {'true' if e else 'false'})" for d, n, p, e in rows]) + ".\n"
    body += ("(* no statement that emits a device-visible event carries the Pure trait *)\n"
             "Lemma purity_sound : forallb (fun r => match r with (_, pure, emits) => negb (pure && emits) end) table = true.\n"
             "Proof. vm_compute. reflexivity. Qed.\n"
             "Lemma emitters_present : List.length (filter (fun r => snd r) table) = 8%nat.\nProof. vm_compute. reflexivity. Qed.\n")
    ok, log = coqrun.compile_lemma_file(ctx.bdir, "Gen_C04", body)
    ctx.obligation(f"Gen_C04: purity_sound over {len(rows)} reflected statement classes (8 event-emitting ones are not Pure)", ok, log[-500:])
    ctx.extra["reflected_purity"] = {f"{d}.{n}": ("pure" if p else "impure") + ("/emits" if e else "") for d, n, p, e in rows}
    for d, n, p, e in rows:
        if p and e:
            ctx.fail({"kind": "emitting-statement-is-pure", "stmt": f"{d}.{n}"}, {"stmt": n}, f"{d}.{n} emits a device-visible event but is marked Pure")


def replay(data):
    inp = data["input"]
    if "default_spec_src" in inp:
        class C:
            def __init__(s): s.fails, s.evaluations = [], 0
            def fail(s, sig, rep, what): s.fails.append(what)
            def nt(s, *a): pass
            def obligation(s, n, ok, log=""):
                if not ok: s.fails.append(n)
        c = C()
        tw_src = "".join(f"@tweezer\ndef {n}{sig}:{body}\n" for n, (sig, body, _) in move_prog.TWEEZERS.items())
        default_spec_history(c, {k: v for k, v in kernels.define(tw_src).items() if k in move_prog.TWEEZERS})
        return bool(c.fails), (c.fails or ["the default architecture is not shared"])[0][:200]
    if "shape_prog" in inp:
        class C:
            def __init__(s): s.fails, s.evaluations = [], 0
            def fail(s, sig, rep, what):
                if rep["shape_prog"] == inp["shape_prog"] and rep["route"] == inp["route"] and rep["c"] == inp["c"]:
                    s.fails.append(what)
            def nt(s, *a): pass
            def count(s, *a): pass
            def obligation(s, n, ok, log=""):
                if not ok: s.fails.append(n)
        c = C()
        S = tweezer_prog.harness_spec()
        tw_src = "".join(f"@tweezer\ndef {n}{sig}:{body}\n" for n, (sig, body, _) in move_prog.TWEEZERS.items()) + KIDLE_SRC
        kns = {k: v for k, v in kernels.define(tw_src).items() if k in move_prog.TWEEZERS or k in ("kidle", "ktone")}
        move_native.register_kernels(tw_src, kns)
        kns["ALL_TONES"] = slice(None)
        shape_programs(c, S, kns)
        return bool(c.fails), (c.fails or ["the route executes the events of the source"])[0][:200]
    if "src" not in inp:
        return True, "re-run bin/check C04"
    S = tweezer_prog.harness_spec()
    tw_src = "".join(f"@tweezer\ndef {n}{sig}:{body}\n" for n, (sig, body, _) in move_prog.TWEEZERS.items())
    kernel_ns = {k: v for k, v in kernels.define(tw_src).items() if k in move_prog.TWEEZERS}
    args = eval(inp.get("args", "()"))
    ref = move_native.run_native(inp["src"], args, S, kernel_ns=kernel_ns)
    rn = inp["route"]
    post = rn.split("+")[1] if "+" in rn else None
    o = {}
    for kv in rn.split("+")[0].split(","):
        k, v = kv.split("=")
        o[k] = v in ("True", "S")
    try:
        m = compile_route(inp["src"], o, post, S, kernel_ns)
    except Exception as e:
        return ref[0] == "ok", f"route refuses to compile: {e}"
    st, evs, extra = run_route(m, o, args, S)
    return st != "ok" or text_of(evs) != text_of(ref[1]), f"{len(evs)} events vs {len(ref[1])} in the source evaluation ({st})"
