"""C10 - zone analysis only attributes values to zones they really belong to."""
from vcommon import coqrun
from vcommon.coqrun import clist, cnat, cstr

from gen import kernels, tweezer_prog
from props import c18

COQ_IMPORT = "From BS Require Import Core.Show Core.Base Model.Lattice Model.ZoneAn.\n"


def specs():
    """the harness spec, and a spec in which zones are views of another zone"""
    from bloqade.geometry.dialects.grid import Grid
    from bloqade.shuttle.arch import ArchSpec, Layout
    from kirin.dialects import ilist
    S1 = tweezer_prog.harness_spec()
    traps = Grid.from_positions([0.0, 2.0, 4.0, 6.5], [0.0, 3.0, 6.0])
    left = traps.get_view(ilist.IList([0, 2]), ilist.IList([0, 1, 2]))
    right = traps.get_view(ilist.IList([1, 3]), ilist.IList([0, 1, 2]))
    aux = Grid.from_positions([20.0, 21.0, 22.0], [1.0, 2.0, 3.0, 4.0])
    S2 = ArchSpec(layout=Layout({"traps": traps, "left": left, "right": right, "aux": aux}, {"left"}, {"traps"}, {"traps"},
                                special_grid={"park": Grid.from_positions([-4.0, -2.0], [0.5, 1.5])}))
    # zones registered AFTER the layout was constructed (the way gemini.logical.get_spec extends the base spec)
    S3 = ArchSpec(layout=Layout({"traps": traps, "aux": aux}, {"traps"}, {"traps"}, {"traps"},
                                special_grid={"park": Grid.from_positions([-4.0, -2.0], [0.5, 1.5])}))
    S3.layout.static_traps.update({"left": Grid.from_positions([40.0, 42.0], [0.0, 3.0, 6.0]), "right": Grid.from_positions([50.0, 52.5], [1.0, 2.0, 3.0])})
    # the same geometry as "views" with the names of two zones exchanged (anything remembered per grid across specs shows up)
    S4 = ArchSpec(layout=Layout({"traps": aux, "left": right, "right": left, "aux": traps}, {"left"}, {"traps"}, {"traps"},
                                special_grid={"park": Grid.from_positions([-4.0, -2.0], [0.5, 1.5])}))
    # zones that are FILLED grids (known vacancies): a view of such a zone must not show the coordinate of a vacant trap
    from bloqade.shuttle.dialects.filled.types import FilledGrid
    mem = FilledGrid.vacate(Grid.from_positions([0.0, 2.0, 4.5], [0.0, 3.0, 7.0]), [(1, 0), (0, 1), (2, 2)])
    S5 = ArchSpec(layout=Layout({"mem": mem, "aux": aux}, {"mem"}, {"mem"}, {"aux"}, special_grid={"park": Grid.from_positions([-4.0, -2.0], [0.5, 1.5])}))
    return {"filled": (S5, ["mem", "aux"]), "plain": (S1, ["traps", "aux"]), "views": (S2, ["traps", "left", "right", "aux"]), "late": (S3, ["traps", "left", "right", "aux"]),
            "views-renamed": (S4, ["traps", "left", "right", "aux"])}


ZSHAPE = {"traps": (4, 3), "aux": (3, 4), "left": (2, 3), "right": (2, 3), "mem": (3, 3)}


def rep_list(rng, n):
    """an ascending index list as long as the axis that is NOT the identity (one index repeated)"""
    if n < 2:
        return "[0]"
    k = rng.randrange(n - 1)
    l = list(range(n))
    l[k + 1] = l[k]
    return str(l)


def gen_kernel(rng, zones, invalid=False, nonmonotone=False, fullrep=False):
    """straight-line kernel; every value is returned so nothing is dead"""
    lines, grids, others = [], [], []
    zn = lambda: rng.choice(zones)
    n = 0

    def fresh(p):
        nonlocal n
        n += 1
        return f"{p}{n}"
    for _ in range(rng.randint(1, 3)):
        v = fresh("z")
        name = zn()
        lines.append(f'{v} = spec.get_static_trap(zone_id="{name}")')
        grids.append(v)
        if fullrep:
            # a view with the SHAPE of the zone that is not the zone (repeated index): must not be attributed as the zone itself
            nx, ny = ZSHAPE[name]
            w = fresh("f")
            xs, ys = rng.choice([(rep_list(rng, nx), str(list(range(ny)))), (str(list(range(nx))), rep_list(rng, ny)), (rep_list(rng, nx), rep_list(rng, ny))])
            lines.append(f"{w} = grid.sub_grid({v}, {xs}, {ys})")
            grids.append(w)
    if invalid:
        v = fresh("bad")
        lines.append(f'{v} = spec.get_static_trap(zone_id="{rng.choice(["nowhere", "park"])}")')
        grids.append(v)
    if rng.random() < 0.5:
        v = fresh("sp")
        lines.append(f'{v} = spec.get_special_grid(grid_id="park")')
        grids.append(v)
    idx = lambda: rng.choice(["0", "1", "0:2", ":", "[0, 1]", "[1]", "-1"]) if not nonmonotone else rng.choice(["[2, 0, 1]", "[1, 0, 1]", "0:2"])
    for _ in range(rng.randint(3, 9)):
        g = rng.choice(grids)
        r = rng.random()
        if r < 0.22:
            v = fresh("v")
            lines.append(f"{v} = {g}[{idx()}, {rng.choice(['0', '0:2', '[0, 1]', ':'])}]")
            grids.append(v)
        elif r < 0.40:
            v = fresh("w")
            xs = "[2, 0, 1]" if nonmonotone and rng.random() < 0.6 else rng.choice(["[0]", "[0, 1]", "[1]"])
            lines.append(f"{v} = grid.sub_grid({g}, {xs}, {rng.choice(['[0]', '[0, 1]'])})")
            grids.append(v)
        elif r < 0.52:
            v = fresh("u")
            lines.append(f"{v} = " + rng.choice([f"grid.shift({g}, 1.0, 0.5)", f"grid.scale({g}, 2.0, 1.0)", f"grid.repeat({g}, 2, 1, 30.0, 1.0)",
                                                 f"grid.shift({g}, 0.0, 0.0)", f"grid.shift({g}, 0.0, 1.5)", f"grid.shift({g}, 2.5, 0.0)",
                                                 f"grid.scale({g}, 1.0, 2.0)", f"grid.repeat({g}, 1, 2, 1.0, 30.0)"]))
            grids.append(v)
        elif r < 0.60:
            v = fresh("a")
            lines.append(f"{v} = {g}")
            grids.append(v)
        elif r < 0.72:
            t, v = fresh("t"), fresh("e")
            h = rng.choice(grids)
            lines.append(f"{t} = ({g}, {h})" if rng.random() < 0.5 else f"{t} = [{g}, {h}]")
            lines.append(f"{v} = {t}[{rng.randint(0, 1)}]")
            others.append(t)
            grids.append(v)
        elif r < 0.82:
            v = fresh("b")
            h = rng.choice(grids)
            if rng.random() < 0.35:
                # one arm is a grid the analysis knows nothing about (result of a helper written without annotations)
                inside = rng.choice([g, f"grid.sub_grid({g}, [0, 1], [0])", f"{g}[0:2, 0]", f'spec.get_static_trap(zone_id="{zn()}")',
                                     f'spec.get_static_trap(zone_id="{zn()}")[0:2, 0]'] + (['spec.get_static_trap(zone_id="nowhere")'] if invalid else []))
                arms = [inside, f"loose({h})"]
                rng.shuffle(arms)
                lines += [f"if c:", f"    {v} = {arms[0]}", "else:", f"    {v} = {arms[1]}"]
            else:
                lines += [f"if c:", f"    {v} = {g}", "else:", f"    {v} = {h}"]
            grids.append(v)
        elif r < 0.92:
            v = fresh("r")
            lines.append(f"{v} = {rng.choice(['ident', 'corner'])}({g})")
            grids.append(v)
        else:
            v = fresh("q")
            lines.append(f"{v} = grid.shape({g})")
            others.append(v)
    ret = ", ".join(grids + others)
    body = "\n".join("    " + l for l in lines)
    helpers = ("@move\ndef ident(g: grid.Grid[Any, Any]):\n    return g\n\n@move\ndef corner(g: grid.Grid[Any, Any]):\n    return g[0, 0]\n\n"
               "@move\ndef loose(g):\n    return g\n\n")
    return helpers + "@move{DEC}\ndef main(c: bool):\n" + body + f"\n    return ({ret},)\n"


def record_runtime(m, args, S, everywhere=False):
    """concrete run recording every value bound in main's top-level block"""
    from bloqade.shuttle.arch import ArchSpecInterpreter
    seen = {}

    class Rec(ArchSpecInterpreter):
        keys = list(ArchSpecInterpreter.keys)

        def eval_stmt(self, frame, stmt):
            r = super().eval_stmt(frame, stmt)
            if isinstance(r, tuple) and (everywhere or stmt.parent_stmt is m.code):
                for res, v in zip(stmt.results, r):
                    seen.setdefault(res, []).append(v)
            return r
    it = Rec(m.dialects, arch_spec=S)
    try:
        it.run(m, args, {})
        return "ok", seen
    except Exception as e:
        return "err", seen


def root_zone(z):
    L = c18.L()
    while True:
        if type(z) is L.SpecZone:
            return z.spec_id
        if type(z) in (L.GetItemOfZone, L.GetSubGridOfZone):
            z = z.zone
            continue
        return None


def is_invalid(z):
    L = c18.L()
    return isinstance(z, L.InvalidZone)


def zone_grid(S, name):
    return S.layout.static_traps.get(name, S.layout.special_grid.get(name))


def abstract_main(m, S):
    """main's top-level block -> zprog (Coq text), initial envs, and the SSA value of every entry"""
    from bloqade.geometry.dialects import grid as gd
    from bloqade.geometry.dialects.grid.types import Grid, SubGrid
    from kirin.dialects import py
    from bloqade.shuttle.dialects import spec as spec_d
    blk = m.callable_region.blocks[0]
    index = {}
    ssa_of = []
    for a in blk.args:
        index[a] = len(ssa_of)
        ssa_of.append(a)
    nargs = len(ssa_of)
    stmts = []
    zid = lambda g: S.layout.get_zone_id(g)
    o = lambda v: "None" if v is None else f"(Some {cstr(v)})"
    for s in blk.stmts:
        if not s.results:
            continue
        ops = [index[a] for a in s.args if a in index]
        if isinstance(s, spec_d.GetStaticTrap):
            texts = [f"ZStatic {cstr(s.zone_id)}"]
        elif isinstance(s, py.Constant):
            val = s.value.unwrap() if hasattr(s.value, "unwrap") else s.value
            if isinstance(val, SubGrid):
                texts = [f"ZConstSub {o(zid(val.parent))}"]
            elif isinstance(val, Grid):
                texts = [f"ZConstGrid {o(zid(val))}"]
            else:
                texts = ["ZOtherNonGrid []"]
        elif isinstance(s, gd.GetSubGrid) and s.zone in index:
            texts = [f"ZSubGrid {cnat(index[s.zone])}"]
        elif isinstance(s, py.indexing.GetItem) and s.obj in index and s.index in index:
            texts = [f"ZGetItem {cnat(index[s.obj])} {cnat(index[s.index])}"]
        else:
            texts = []
            for r in s.results:
                isg = r.type.is_subseteq(gd.GridType)
                texts.append(f"{'ZOtherGrid' if isg else 'ZOtherNonGrid'} {clist([cnat(k) for k in ops])}")
        for r, t in zip(s.results, texts):
            index[r] = len(ssa_of)
            ssa_of.append(r)
            stmts.append(t)
    return clist(stmts), nargs, ssa_of


def sites(g):
    return set(g.positions)


def check_kernel(ctx, src, S, statics, label, cases, other=None):
    from bloqade.shuttle.analysis.zone import ZoneAnalysis
    try:
        m = kernels.define(src, S=S)["main"]
    except Exception as e:
        ctx.hist("outcome", "definition error " + type(e).__name__)
        return
    frame, _ = ZoneAnalysis(m.dialects, arch_spec=S).run_analysis(m)
    entries = frame.entries
    runs = [record_runtime(m, (c,), S) for c in (False, True)]
    ctx.evaluations += 1
    rep = {"src": src, "spec": label}
    for ssa, a in entries.items():
        vals = [v for st, seen in runs for v in seen.get(ssa, [])]
        rz = root_zone(a)
        L = c18.L()
        if is_invalid(a):
            ctx.hist("attribution", "invalid")
            if vals:
                ctx.fail({"kind": "invalid-but-computed", "zone": c18.show(a)}, rep, f"value flagged {c18.show(a)} was computed at run time")
        elif type(a) is L.SpecZone:
            ctx.hist("attribution", "zone itself")
            g = zone_grid(S, a.spec_id)
            for v in vals:
                # "exactly that zone's grid": the same sites in the same order (decided on the coordinates, not by the grids' own ==)
                if g is None or tuple(v.shape) != tuple(g.shape) or list(v.positions) != list(g.positions):
                    ctx.fail({"kind": "not-the-zone", "zone": a.spec_id}, rep, f"value attributed to zone {a.spec_id} is not that zone's grid at run time")
        elif rz is not None:
            ctx.hist("attribution", "view of a zone")
            g = zone_grid(S, rz)
            for v in vals:
                try:
                    extra = sites(v) - sites(g)
                except Exception:
                    extra = {"?"}
                if extra:
                    ix = "non-monotone index list" if ("[2, 0, 1]" in src or "[1, 0, 1]" in src) else "other"
                    ctx.fail({"kind": "sites-outside-zone", "zone": rz, "indices": ix}, rep,
                             f"value attributed to a view of zone {rz} has sites {sorted(extra)[:3]} that are not sites of that zone")
                else:
                    ctx.nt((label, src, str(ssa)))
        else:
            ctx.hist("attribution", "no claim")
    # the hints attached by HintZone are the analysis' answer for THIS spec, also when the kernel was hinted before with another spec
    if other is not None:
        try:
            from kirin import ir
            from bloqade.shuttle.passes.hint_zone import HintZone
            m2 = kernels.define(src, S=S)["main"]
            HintZone(m2.dialects, arch_spec=other)(m2)
            HintZone(m2.dialects, arch_spec=S)(m2)
            f2, _ = ZoneAnalysis(m2.dialects, arch_spec=S).run_analysis(m2)
            stale = [(str(ssa), c18.show(ssa.hints.get("zone.analysis")) if ssa.hints.get("zone.analysis") is not None else "no hint", c18.show(a))
                     for ssa, a in f2.entries.items() if isinstance(ssa, ir.ResultValue) and ssa.hints.get("zone.analysis") != a]
            ctx.hist("hints", "hinted twice (other spec, then this spec)")
            if stale:
                ctx.fail({"kind": "hint-differs-from-analysis", "history": "HintZone(other spec); HintZone(this spec)"}, dict(rep, history="HintZone with another spec, then with this spec"),
                         f"after HintZone was re-run with the current spec, {len(stale)} hints still differ from the analysis, e.g. {stale[0][1]} instead of {stale[0][2]}")
        except Exception as e:
            ctx.fail({"kind": "hint-pass-raises", "error": type(e).__name__}, rep, f"HintZone raised {type(e).__name__}: {str(e)[:120]}")
    # the hints HintZone leaves on ANY value it touches - in the kernel, inside its loops and branches, in the subroutines it calls - are
    # claims of the same kind: every run-time value of a hinted SSA value, on every call and every iteration, must satisfy its hint
    try:
        from kirin import ir
        from kirin.dialects import func
        from bloqade.shuttle.passes.hint_zone import HintZone
        m3 = kernels.define(src, S=S)["main"]
        HintZone(m3.dialects, arch_spec=S)(m3)
        methods, todo = [], [m3]
        while todo:
            cur = todo.pop()
            if any(cur is x for x in methods):
                continue
            methods.append(cur)
            todo += [st.callee for st in cur.callable_region.walk() if isinstance(st, func.Invoke)]
        runs3 = [record_runtime(m3, (c,), S, everywhere=True) for c in (False, True)]
        L = c18.L()
        for mt in methods:
            for st in mt.callable_region.walk():
                for res in st.results:
                    a = res.hints.get("zone.analysis")
                    if a is None or (mt is m3 and st.parent_stmt is m3.code):
                        continue            # top-level values of the kernel are judged above
                    vals = [v for _, seen in runs3 for v in seen.get(res, [])]
                    rz = root_zone(a)
                    where = f"{mt.sym_name}: {type(st).__name__}"
                    if is_invalid(a) and vals:
                        ctx.fail({"kind": "invalid-but-computed", "zone": c18.show(a), "where": "nested"}, dict(rep, where=where), f"value hinted {c18.show(a)} inside {where} was computed at run time")
                    elif type(a) is L.SpecZone or rz is not None:
                        g = zone_grid(S, a.spec_id if type(a) is L.SpecZone else rz)
                        for v in vals:
                            try:
                                bad = (tuple(v.shape) != tuple(g.shape) or list(v.positions) != list(g.positions)) if type(a) is L.SpecZone else bool(sites(v) - sites(g))
                            except Exception:
                                bad = True
                            if bad:
                                ctx.fail({"kind": "sites-outside-zone" if rz is not None and type(a) is not L.SpecZone else "not-the-zone", "zone": rz or a.spec_id, "where": "nested"}, dict(rep, where=where),
                                         f"a value inside {where} is hinted {c18.show(a)[:60]} but one of its run-time values is not in / not that zone")
                                break
                        else:
                            if vals:
                                ctx.nt((label, src, "nested", where, str(res)))
    except Exception as e:
        ctx.fail({"kind": "hint-pass-raises", "error": type(e).__name__, "where": "nested"}, rep, f"HintZone / the recording run raised {type(e).__name__}: {str(e)[:120]}")
    # Coq: the analysis model on the abstracted main block
    prog, nargs, ssa_of = abstract_main(m, S)
    got = [c18.show(entries[s]) if s in entries else "-" for s in ssa_of]
    cases.append((prog, nargs, clist([cstr(z) for z in statics]), got, rep))


def translated_transfer_functions(ctx):
    """the analysis's transfer functions read from source on every run (harness/gen/zone_translate.py, fail-closed): the handlers of
    impl/{spec,grid,py}.py, get_grid_lattice / eval_stmt_fallback and lattice.py's hierarchy become astep_src, proved equal to
    Model.ZoneAn.astep for every statement, environment and set of static names"""
    from gen import zone_translate
    from vcommon import paths
    name = "analysis/zone/{analysis,lattice}.py and impl/{spec,grid,py}.py are inside the translated fragment (generated model Gen_C10_src.v)"
    try:
        body = zone_translate.generate(paths.REPO)
    except Exception as e:
        ctx.obligation(name, False, f"{type(e).__name__}: {e}"[:300])
        return
    ctx.obligation(name, True)
    ok, log = coqrun.compile_lemma_file(ctx.bdir, "Gen_C10_src", body, timeout=300)
    closed = log.count("Closed under the global context")
    ctx.obligation("the translated transfer functions equal Model.ZoneAn.astep for every statement and environment (astep_src_eq, arun_src), "
                   "closed under the global context", ok and closed >= 2, log[-600:])


def run(ctx):
    translated_transfer_functions(ctx)
    SP = specs()
    ctx.rule = ("straight-line @move kernels combining valid/invalid static lookups, special grids, indexing (ints, slices, ascending lists, negative "
                "indices), sub_grid, views of views, shift/scale/repeat, aliases, tuple/list containers, branch-joined values and subroutine calls, "
                "on a spec with independent zones and a spec whose zones are views of another zone; analysed unfolded (spec only given to the "
                "analysis) and folded (@move(arch_spec=...)); every top-level value recorded at run time for c in {False, True}; a separate stream "
                "uses index lists that go down and up again; non-trivial = distinct values attributed to a view of a zone whose sites were checked")
    cases = []
    for i in range(ctx.pick(120, 1500)):
        label = ctx.rng.choice(list(SP))
        S, zones = SP[label]
        invalid = ctx.rng.random() < 0.2
        nonmono = ctx.rng.random() < 0.12
        fullrep = not nonmono and label != "views-renamed" and ctx.rng.random() < 0.2
        src = gen_kernel(ctx.rng, zones, invalid=invalid, nonmonotone=nonmono, fullrep=fullrep)
        ctx.hist("stream", ("invalid-name " if invalid else "") + ("non-monotone-indices" if nonmono else "zone-shaped views with a repeated index" if fullrep else "regular"))
        other = SP[ctx.rng.choice([k for k in SP if k != label])][0]
        for dec, tag in (("", "unfolded"), ("(arch_spec=S)", "folded")):
            check_kernel(ctx, src.replace("{DEC}", dec), S, zones, f"{label}/{tag}", cases, other=other if tag == "unfolded" else None)
        if i == 0:
            ctx.sample({"kernel": src.replace("{DEC}", "")[-700:], "spec": label})
    # always present, whatever the random stream: every zone under every transform that keeps one axis (or both) unchanged, followed by a
    # view and an index - derived grids that share columns, rows or shape with a named zone must not be attributed to it
    TRANSFORMS = ["grid.shift({z}, 0.0, 1.5)", "grid.shift({z}, 2.5, 0.0)", "grid.shift({z}, 0.0, 0.0)", "grid.scale({z}, 1.0, 2.0)", "grid.scale({z}, 2.0, 1.0)",
                  "grid.scale({z}, 1.0, 1.0)", "grid.repeat({z}, 1, 2, 1.0, 30.0)", "grid.repeat({z}, 2, 1, 30.0, 1.0)", "grid.repeat({z}, 1, 1, 1.0, 1.0)",
                  "grid.shift_subgrid_y({z}, [0], 1.5)", "grid.shift_subgrid_x({z}, [0], 2.5)",
                  "grid.from_positions(grid.get_xpos({z}), [100.0, 101.0])", "grid.from_positions([100.0, 101.0], grid.get_ypos({z}))"]
    nfixed = 0
    # a layout with SQUARE zones (3x3 and 2x2): views that are complete along one axis and partial along the other
    from bloqade.geometry.dialects.grid import Grid as _Grid
    from bloqade.shuttle.arch import ArchSpec as _ArchSpec, Layout as _Layout
    SQ = _ArchSpec(layout=_Layout({"sq": _Grid.from_positions([0.0, 2.0, 4.5], [0.0, 3.0, 7.0]), "sq2": _Grid.from_positions([20.0, 21.0], [1.0, 2.5])},
                                  {"sq"}, {"sq"}, {"sq2"}, special_grid={}))
    FIX = dict(SP)
    FIX["square"] = (SQ, ["sq", "sq2"])
    shapes = dict(ZSHAPE, sq=(3, 3), sq2=(2, 2))
    for label, (S, zones) in FIX.items():
        for zname in zones:
            nx, ny = shapes[zname]
            allx, ally = str(list(range(nx))), str(list(range(ny)))
            views = [f"grid.sub_grid({{z}}, {allx}, [0])", f"grid.sub_grid({{z}}, [0], {ally})", "{z}[:, 0:1]", "{z}[0:1, :]",
                     f"grid.sub_grid({{z}}, {allx}, {ally})", f"grid.sub_grid({{z}}, {allx}, {str([0] * ny)})", f"grid.sub_grid({{z}}, {str([0] * nx)}, {ally})",
                     f"grid.sub_grid({{z}}, {str(sorted(list(range(nx)) + [min(1, nx - 1)]))}, {ally})", f"grid.sub_grid({{z}}, {allx}, {str(sorted(list(range(ny)) + [min(1, ny - 1)]))})",
                     f"grid.sub_grid({{z}}, {str([min(1, nx - 1)] * 2 + [nx - 1])}, {str([0, 0] + [ny - 1] * 2)})"]
            for t in TRANSFORMS + views:
                src = ("@move{DEC}\ndef main(c: bool):\n" + f'    z1 = spec.get_static_trap(zone_id="{zname}")\n    u2 = {t.format(z="z1")}\n'
                       "    v3 = u2[0:1, 0:1]\n    w4 = grid.sub_grid(u2, [0], [0])\n"
                       # each value is used by a statement of its own, so that folding keeps it as a value of its own
                       "    gate.local_rz(0.5, z1)\n    gate.local_rz(0.5, u2)\n    gate.local_rz(0.5, v3)\n    gate.local_rz(0.5, w4)\n")
                for dec, tag in (("", "unfolded"), ("(arch_spec=S)", "folded")):
                    check_kernel(ctx, src.replace("{DEC}", dec), S, zones, f"{label}/{tag}", cases)
                nfixed += 1
    # the layout whose zone is a FILLED grid: the plain grid under it, a grid built from the same coordinates, the zone with its vacant
    # traps filled again, and a masked copy of a plain zone are four grids that are NOT the zone (and whose views may show its vacant traps)
    S5, z5 = FIX["filled"]
    FILLED_KERNELS = [
        ('    z1 = spec.get_static_trap(zone_id="mem")\n    p2 = filled.get_parent(z1)\n    v3 = grid.sub_grid(p2, [1], [0])\n    w4 = p2[0:2, 0:2]\n'),
        ('    z1 = spec.get_static_trap(zone_id="mem")\n    p2 = grid.from_positions([0.0, 2.0, 4.5], [0.0, 3.0, 7.0])\n    v3 = grid.sub_grid(p2, [1, 2], [0, 2])\n    w4 = p2[0:2, 0:2]\n'),
        ('    z1 = spec.get_static_trap(zone_id="mem")\n    p2 = filled.fill(z1, [(1, 0), (0, 1), (2, 2)])\n    v3 = grid.sub_grid(p2, [1], [0])\n    w4 = p2[0:2, 0:2]\n'),
        ('    z1 = spec.get_static_trap(zone_id="mem")\n    p2 = filled.fill(z1[0:2, 0:2], [(1, 0)])\n    v3 = grid.sub_grid(p2, [1], [0])\n    w4 = filled.fill(z1, [(0, 0)])\n'),
        ('    z1 = spec.get_static_trap(zone_id="aux")\n    p2 = filled.vacate(z1, [(0, 0), (1, 2)])\n    v3 = grid.sub_grid(p2, [0, 1], [0])\n    w4 = filled.get_parent(p2)\n'),
        ('    z1 = spec.get_static_trap(zone_id="mem")\n    p2 = filled.vacate(z1, [(1, 1)])\n    v3 = filled.get_parent(p2)\n    w4 = filled.shift(z1, 0.0, 0.0)\n'),
        # views of views of the filled zone whose first selection does not start at 0 (the vacant trap (1, 1) of mem lies inside)
        ('    z1 = spec.get_static_trap(zone_id="mem")\n    p2 = z1[1:, :]\n    v3 = p2[0:, 1:]\n    w4 = grid.sub_grid(p2, [0, 1], [1, 2])\n'),
        ('    z1 = spec.get_static_trap(zone_id="mem")\n    p2 = grid.sub_grid(z1, [1, 2], [0, 1, 2])\n    v3 = p2[0:1, 0:2]\n    w4 = filled.get_parent(p2[0:1, 1:2])\n'),
        ('    z1 = spec.get_static_trap(zone_id="mem")\n    p2 = z1[:, 1:]\n    v3 = p2[1:, :][0:1, 0:1]\n    w4 = filled.get_parent(v3)\n'),
    ]
    # loop-carried grids: the value before the loop lies outside every zone, the body overwrites it with a view (or the other way
    # round); the loop runs zero times for c = False
    LOOP_KERNELS = [
        ('    z1 = spec.get_static_trap(zone_id="{Z}")\n    p2 = grid.shift(z1, 100.0, 0.0)\n    k = 0\n    if c:\n        k = 2\n    i = 0\n    for i in range(k):\n        p2 = z1[0:2, 0:1]\n'
         '    v3 = p2[0:1, 0:1]\n    w4 = grid.sub_grid(p2, [0], [0])\n'),
        ('    z1 = spec.get_static_trap(zone_id="{Z}")\n    p2 = z1[0:2, 0:1]\n    k = 0\n    if c:\n        k = 1\n    i = 0\n    for i in range(k):\n        p2 = grid.shift(p2, 50.0, 50.0)\n'
         '    v3 = p2[0:1, 0:1]\n    w4 = grid.sub_grid(p2, [0], [0])\n'),
        ('    z1 = spec.get_static_trap(zone_id="{Z}")\n    p2 = z1\n    k = 0\n    if c:\n        k = 3\n    i = 0\n    for i in range(k):\n        if i > 0:\n            p2 = grid.shift(z1, 0.0, 10.0 * i)\n'
         '    v3 = p2[0:1, 0:1]\n    w4 = corner(p2)\n'),
    ]
    for body in LOOP_KERNELS:
        for label in ("plain", "filled"):
            S_l, zones_l = FIX[label]
            src = ("@move\ndef corner(g: grid.Grid[Any, Any]):\n    return g[0, 0]\n\n@move{DEC}\ndef main(c: bool):\n" + body.replace("{Z}", zones_l[0]) +
                   "    gate.local_rz(0.5, z1)\n    gate.local_rz(0.5, p2)\n    gate.local_rz(0.5, v3)\n    gate.local_rz(0.5, w4)\n")
            for dec, tag in (("", "unfolded"), ("(arch_spec=S)", "folded")):
                check_kernel(ctx, src.replace("{DEC}", dec), S_l, zones_l, f"{label}/{tag}", cases)
            nfixed += 1
    # one subroutine called with DIFFERENT zones (and with a grid outside every zone): whatever is hinted inside it holds for every call
    for label in ("plain", "views"):
        S_l, zones_l = FIX[label]
        za, zb = zones_l[0], zones_l[-1]
        src = ("@move\ndef first_col(g: grid.Grid[Any, Any]):\n    col = g[0:1, :]\n    one = grid.sub_grid(col, [0], [0])\n    return col\n\n"
               "@move{DEC}\ndef main(c: bool):\n" + f'    z1 = spec.get_static_trap(zone_id="{za}")\n    q1 = spec.get_static_trap(zone_id="{zb}")\n'
               "    p2 = first_col(z1)\n    v3 = first_col(q1)\n    w4 = first_col(grid.shift(z1, 70.0, 0.0))\n"
               "    gate.local_rz(0.5, z1)\n    gate.local_rz(0.5, q1)\n    gate.local_rz(0.5, p2)\n    gate.local_rz(0.5, v3)\n    gate.local_rz(0.5, w4)\n")
        for dec, tag in (("", "unfolded"), ("(arch_spec=S)", "folded"), ("(fold=False)", "unfolded")):
            check_kernel(ctx, src.replace("{DEC}", dec), S_l, zones_l, f"{label}/{tag}", cases)
        nfixed += 1
    for body in FILLED_KERNELS:
        for param in (False, True):
            # the site lists as literals, and handed in at run time (nothing to fold)
            src = ("@move{DEC}\ndef main(c: bool):\n" + body + "    gate.local_rz(0.5, z1)\n    gate.local_rz(0.5, p2)\n    gate.local_rz(0.5, v3)\n    gate.local_rz(0.5, w4)\n")
            for dec, tag in (("", "unfolded"), ("(arch_spec=S)", "folded"), ("(fold=False)", "unfolded")):
                check_kernel(ctx, src.replace("{DEC}", dec), S5, z5, f"filled/{tag}", cases)
            nfixed += 1
    ctx.count("fixed kernels: every zone under every axis-preserving transform (unfolded and folded)", nfixed)
    chunks = [cases[i:i + 60] for i in range(0, len(cases), 60)]
    bodies = []
    for k, ch in enumerate(chunks):
        b = COQ_IMPORT + ("Definition row (c : zprog * nat * list string) : string :=\n"
                          "  match c with (p, nargs, statics) =>\n"
                          "    sep_by \";\" (map show_zone (arun statics (NotZone :: List.repeat UnknownZone (nargs - 1)) p)) end.\n")
        b += "Eval vm_compute in (lines (map row " + clist([f"({c[0]}, {cnat(c[1])}, {c[2]})" for c in ch]) + "))."
        bodies.append((f"zone_{k}", b))
    mism = []
    for ch, (ok, vals, log) in zip(chunks, coqrun.eval_many(ctx.bdir, bodies)):
        if not ok or len(vals) != 1 or len(vals[0]) != len(ch):
            ctx.obligation("coqc zone file evaluates", False, log[-800:])
            continue
        for c, line in zip(ch, vals[0]):
            model = line.split(";")
            for j, (a, b) in enumerate(zip(model, c[3])):
                if b != "-" and a != b:
                    mism.append({"value_index": j, "model": a, "impl": b, "src": c[4]["src"][-500:], "spec": c[4]["spec"]})
                    break
    ctx.correspondence("Model.ZoneAn.arun on the abstracted main block vs ZoneAnalysis entries (every top-level SSA value)", len(cases), mism)
    ctx.explanation = ("Theorems: for every straight-line program the analysis tracks provenance soundly (attributed to zone z => is z / a chain of views "
                       "over z; flagged invalid => never computed); a view with ascending in-range indices shows only positions of its parent; the "
                       "latter is refuted for non-monotone index lists (bloqade.geometry SubGrid arithmetic). Tie: the analysis model vs the "
                       "implementation's entries for every top-level value; site containment checked on recorded run-time values.")


def replay(data):
    inp = data["input"]
    SP = specs()
    S, zones = SP[inp["spec"].split("/")[0]]

    class C:
        evaluations = 0
        def __init__(s): s.fails = []
        def fail(s, sig, rep, what): s.fails.append(what)
        def hist(s, *a): pass
        def nt(s, *a): pass
    c = C()
    check_kernel(c, inp["src"], S, zones, inp["spec"], [])
    return bool(c.fails), "; ".join(c.fails[:2]) or "sound on this kernel"
