"""C09 - the quantum-runtime query never answers False for a kernel that acts."""
import itertools

from vcommon import coqrun, events
from vcommon.coqrun import clist, cstr

from gen import kernels, tweezer_prog

COQ_IMPORT = "From BS Require Import Core.Show Model.Runtime.\n"

TW = """
@tweezer
def kk(a: float):
    action.set_loc(grid.from_positions([a], [0.0]))
"""
PRO = ("    z0 = spec.get_static_trap(zone_id=\"traps\")\n"
       "    ff = schedule.device_fn(kk, [0], [0])\n")
DEV = {"fill": "init.fill([z0])", "cz": "gate.top_hat_cz(z0)", "local_r": "gate.local_r(0.5, 1.0, z0)",
       "local_rz": "gate.local_rz(1.0, z0)", "global_r": "gate.global_r(0.5, 1.0)", "global_rz": "gate.global_rz(1.0)",
       "measure": "measure.measure((z0,))", "play": "ff(1.0)"}
QUIET = "qq = 1 + 2"


def templates():
    """name -> (source with {X} where the statement goes, params, may contain a dynamic call?)"""
    T = {}
    main = lambda body, extra="": f"{extra}@move\ndef main(n: int, c: bool):\n{PRO}{body}"
    T["top"] = main("    {X}\n")
    T["then"] = main("    if c:\n        {X}\n")
    T["else"] = main("    if c:\n        qa = 1\n    else:\n        {X}\n")
    T["after-returning-if"] = main("    if c:\n        return 1\n    {X}\n    return 2\n")
    T["loop"] = main("    i = 0\n    for i in range(n):\n        {X}\n")
    T["loop-carried"] = main("    acc = 0\n    i = 0\n    for i in range(n):\n        acc = acc + i\n        {X}\n    return acc\n")
    T["loop2-carried"] = main("    acc = 0\n    i = 0\n    j = 0\n    for i in range(n):\n        for j in range(2):\n            acc = acc + j\n            {X}\n    return acc\n")
    T["loop2-outer-carried-only"] = main("    acc = 0\n    i = 0\n    j = 0\n    for i in range(n):\n        acc = acc + 1\n        for j in range(2):\n            {X}\n    return acc\n")
    T["loop3-carried"] = main("    acc = 0\n    i = 0\n    j = 0\n    k = 0\n    for i in range(n):\n        for j in range(2):\n            for k in range(2):\n                acc = acc + k\n                {X}\n    return acc\n")
    T["loop-in-if-in-loop"] = main("    acc = 0\n    i = 0\n    j = 0\n    for i in range(n):\n        if c:\n            for j in range(2):\n                acc = acc + 1\n                {X}\n    return acc\n")
    sub = "@move\ndef sub(m: int):\n" + PRO + "    {X}\n    return m\n\n"
    T["subroutine"] = main("    r = sub(n)\n", sub)
    T["subroutine-in-loop"] = main("    acc = 0\n    i = 0\n    for i in range(n):\n        acc = acc + sub(i)\n    return acc\n", sub)
    # a subroutine that looks the spec up and calls a closure of its own (the closure captures the looked-up value and a parameter)
    subclo = ("@move\ndef subclo(m: int):\n" + PRO + "    w = spec.get_int_constant(constant_id=\"rows\")\n    def inner(k: int):\n        {X}\n        return k + m + w\n"
              "    return inner(2)\n\n")
    T["subroutine-with-lookup-calls-its-own-closure"] = main("    r = subclo(n)\n    return r\n", subclo)
    T["subroutine-with-lookup-calls-its-own-closure-in-loop"] = main("    acc = 0\n    i = 0\n    for i in range(n):\n        acc = acc + subclo(i)\n    return acc\n", subclo)
    # an if whose ELSE branch returns while the then branch falls through, with the statement after it (top level, in a subroutine, in a loop)
    T["after-if-whose-else-returns"] = main("    if c:\n        qq = 1\n    else:\n        return 3\n    {X}\n    return 7\n")
    T["after-elif-chain-whose-last-else-returns"] = main("    if n > 1:\n        qq = 1\n    elif c:\n        qq = 2\n    else:\n        return 3\n    {X}\n    return 7\n")
    subelse = "@move\ndef subelse(m: int, c: bool):\n" + PRO + "    if c:\n        qq = 1\n    else:\n        return 3\n    {X}\n    return m\n\n"
    T["subroutine-after-if-whose-else-returns"] = main("    r = subelse(n, c)\n", subelse)
    T["loop-body-after-if-whose-else-returns"] = main("    i = 0\n    for i in range(n):\n        if c:\n            qq = 1\n        else:\n            return 3\n        {X}\n    return 7\n")
    rec = "@move\ndef rec(m: int):\n" + PRO + "    if m > 0:\n        return rec(m - 1)\n    {X}\n    return 0\n\n"
    T["recursive-subroutine"] = main("    r = rec(n)\n", rec)
    T["closure-called"] = main("    def inner(k: int):\n        {X}\n        return k\n    r = inner(n)\n")
    T["closure-called-in-loop"] = main("    def inner(k: int):\n        {X}\n        return k\n    acc = 0\n    i = 0\n    for i in range(n):\n        acc = acc + inner(i)\n    return acc\n")
    mk = "@move\ndef mk(m: int):\n" + PRO + "    def inner(k: int):\n        {X}\n        return k + m\n    return inner\n\n"
    T["closure-returned-then-called"] = main("    f = mk(n)\n    r = f(n)\n", mk)
    # the result depends on a spec constant, so that an injection pass always has something to replace (also in a quiet kernel)
    T["closure-returned-then-called-result-uses-spec-constant"] = main(
        "    kq = spec.get_int_constant(constant_id=\"rows\")\n    f = mk(n)\n    r = f(n)\n    {X}\n    return r + kq\n", mk)
    T["subroutine-in-loop-result-uses-spec-constant"] = main(
        "    kq = spec.get_int_constant(constant_id=\"rows\")\n    acc = 0\n    i = 0\n    for i in range(n):\n        acc = acc + sub(i)\n    return acc + kq\n",
        "@move\ndef sub(m: int):\n" + PRO + "    {X}\n    return m\n\n")
    # a function value handed back through TWO levels of subroutines before the kernel calls it
    via = mk + "@move\ndef via(m: int):\n    return mk(m)\n\n"
    T["closure-returned-through-two-subroutines-result-uses-spec-constant"] = main(
        "    kq = spec.get_int_constant(constant_id=\"rows\")\n    f = via(n)\n    r = f(n)\n    return r + kq\n", via)
    # folds and scans whose accumulator starts as a constant EMPTY list (collecting results) over a list that is not empty at run time
    kick = ("@move\ndef kick(done: ilist.IList[float, Any], angle: float):\n" + PRO + "    {X}\n    return done + [angle]\n\n"
            "@move\ndef kick2(done: ilist.IList[float, Any], angle: float):\n" + PRO + "    {X}\n    return done + [angle], angle\n\n"
            "@move\ndef rkick(angle: float, done: ilist.IList[float, Any]):\n" + PRO + "    {X}\n    return done + [angle]\n\n")
    angles = "    angles = ilist.map(to_angle, ilist.range(n))\n"
    to_angle = "@move\ndef to_angle(k: int):\n    return 0.5 * k\n\n"
    T["ilist-foldl-into-empty-list"] = main(angles + "    r = ilist.foldl(kick, angles, [])\n    return r\n", kick + to_angle)
    T["ilist-foldr-into-empty-list"] = main(angles + "    r = ilist.foldr(rkick, angles, [])\n    return r\n", kick + to_angle)
    T["ilist-scan-into-empty-list"] = main(angles + "    r = ilist.scan(kick2, angles, [])\n    return r\n", kick + to_angle)
    # classical statements of OTHER dialects that share a name with a device-visible one (filled.fill / init.fill ...) analysed first
    T["after-filled-grid-statements"] = main("    fg = filled.fill(z0, [(0, 0), (n, 0)])\n    fv = filled.vacate(fg, [(1, n)])\n    fs = filled.shift(fv, 1.0, 0.0)\n    {X}\n    return fs\n")
    T["subroutine-with-filled-grid-statements-first"] = main("    fg = prep(n)\n    {X}\n    return fg\n",
                                                             "@move\ndef prep(m: int):\n" + PRO + "    return filled.fill(z0, [(0, 0), (m, 0)])\n\n")
    # device tasks that are built and reversed but never played
    T["builds-device-tasks-without-playing"] = main("    f = schedule.device_fn(kk, ilist.range(n), [0])\n    r = schedule.reverse(f)\n    {X}\n    return r\n")
    T["factory-of-device-tasks"] = main("    r = factory(n)\n    {X}\n    return r\n",
                                        "@move\ndef factory(m: int):\n    f = schedule.device_fn(kk, ilist.range(m), [0])\n    return schedule.reverse(f)\n\n")
    T["closure-never-called"] = main("    def inner(k: int):\n        {X}\n        return k\n    return inner\n")
    two = ("@move\ndef pick(c: bool):\n    def a(k: int):\n        return k\n    def b(k: int):\n        return k + 1\n    if c:\n        return a\n    return b\n\n")
    T["after-dynamic-call"] = main("    g = pick(c)\n    r = g(n)\n    {X}\n", two)
    T["before-dynamic-call"] = main("    {X}\n    g = pick(c)\n    r = g(n)\n", two)
    T["gate-in-loop-after-dynamic-call"] = main("    g = pick(c)\n    acc = 0\n    i = 0\n    for i in range(n):\n        acc = acc + g(i)\n        {X}\n    return acc\n", two)
    T["after-loop-that-returns"] = main("    i = 0\n    for i in range(n):\n        return i\n    {X}\n    return 7\n")
    T["after-loop-returning-under-if"] = main("    i = 0\n    for i in range(n):\n        if c:\n            return i\n    {X}\n    return 7\n")
    T["in-loop-before-return"] = main("    i = 0\n    for i in range(n):\n        {X}\n        return i\n    return 7\n")
    T["in-nested-loop-after-returning-loop"] = main("    i = 0\n    j = 0\n    for i in range(n):\n        for j in range(i):\n            return j\n        {X}\n    return 7\n")
    # a closure variable called in a loop and rebound by the body to another, acting closure (acts from the second iteration on)
    T["closure-variable-rebound-in-loop"] = main("    def step():\n        return n\n    def pulse():\n        {X}\n        return n\n    acc = 0\n    i = 0\n"
                                                 "    for i in range(n):\n        acc = acc + step()\n        step = pulse\n    return acc\n")
    # library higher-order functions applying a subroutine / closure to the elements of a list
    T["ilist-map-subroutine"] = main("    r = ilist.map(sub, ilist.range(n))\n    return r\n", sub)
    T["ilist-for_each-closure"] = main("    def inner(k: int):\n        {X}\n    ilist.for_each(inner, ilist.range(n))\n")
    T["ilist-map-capturing-closure"] = main("    def inner(k: int):\n        {X}\n        return k + n\n    r = ilist.map(inner, ilist.range(n))\n    return r\n")
    T["ilist-foldl-subroutine"] = main("    r = ilist.foldl(sub2, ilist.range(n), 0)\n    return r\n",
                                       "@move\ndef sub2(acc: int, m: int):\n" + PRO + "    {X}\n    return acc + m\n\n")
    # closures that capture a run-time value (the call stays dynamic) and reach the statement through a subroutine,
    # or that are purely classical and are called after an acting subroutine
    T["capturing-closure-calls-subroutine"] = main("    def inner(k: int):\n        return sub(k) + n\n    r = inner(1)\n", sub)
    T["capturing-closure-calls-subroutine-in-loop"] = main("    def inner(k: int):\n        return sub(k) + n\n    acc = 0\n    i = 0\n    for i in range(n):\n        acc = acc + inner(i)\n    return acc\n", sub)
    T["subroutine-then-classical-capturing-closure"] = main("    r = sub(n)\n    def inner(k: int):\n        return k + n\n    q = inner(2)\n    return q + r\n", sub)
    T["classical-capturing-closure-then-subroutine"] = main("    def inner(k: int):\n        return k + n\n    q = inner(2)\n    r = sub(n)\n    return q + r\n", sub)
    T["statement-then-classical-capturing-closure"] = main("    {X}\n    def inner(k: int):\n        return k + n\n    q = inner(2)\n    return q\n")
    # the statement at the end of a chain of subroutines, each called from inside two loops and a branch of the previous one
    # (every loop body, branch and call is one more frame for the analysis as for the interpreters)
    for depth in (3, 6):
        chain = "@move\ndef d%d(m: int):\n" % depth + PRO + "    {X}\n    return m\n\n"
        for k in range(depth - 1, 0, -1):
            chain += (f"@move\ndef d{k}(m: int):\n    acc = 0\n    i = 0\n    j = 0\n    for i in range(1):\n        for j in range(1):\n"
                      f"            if m >= 0:\n                acc = acc + d{k + 1}(m)\n    return acc\n\n")
        T[f"subroutine-chain-{depth}-deep-in-loops-and-branches"] = main("    r = d1(n)\n", chain)
    # a wrapper that calls a DIFFERENT kernel carrying the same name (user wrapper around a library routine)
    T["same-name-subroutine"] = ("two-step", "@move\ndef prepare(m: int):\n" + PRO + "    {X}\n    return m\n",
                                 "@move\ndef prepare(m: int):\n    return lib_prepare(m)\n\n" + main("    r = prepare(n)\n"))
    T["same-name-as-main"] = ("two-step", "@move\ndef main(m: int):\n" + PRO + "    {X}\n    return m\n",
                              main("    r = lib_prepare(n)\n"))
    return T


def _decorate_main(src, main_dec):
    k = src.rindex("@move\ndef main(")
    return src[:k] + "@move" + main_dec + src[k + 5:]


def define_template(tsrc, stext, main_dec="", **extra):
    """-> (main method, source text shown in replays); main_dec: decorator options of the LAST main kernel"""
    if isinstance(tsrc, tuple):
        inner_src = TW + tsrc[1].replace("{X}", stext)
        inner = [v for k, v in kernels.define(inner_src).items() if k in ("prepare", "main")][0]
        outer_src = _decorate_main(TW + tsrc[2].replace("{X}", stext), main_dec)
        return kernels.define(outer_src, lib_prepare=inner, **extra)["main"], "# lib_prepare is:\n" + inner_src + "\n# then:\n" + outer_src
    src = _decorate_main(TW + tsrc.replace("{X}", stext), main_dec)
    return kernels.define(src, **extra)["main"], src


ARGS = [(n, c) for n in (0, 1, 2) for c in (False, True)]


def abstract(m, table, seen):
    """compiled IR -> Model.Runtime.rstmt (Coq text); invoked kernels are added to `table`"""
    from kirin.analysis import const
    from kirin.dialects import func, scf
    from kirin import ir
    from bloqade.shuttle.dialects import gate, init, measure, path
    from kirin.dialects import ilist as il
    HIGHER_ORDER = (il.Map, il.ForEach, il.Foldl, il.Foldr, il.Scan)
    dev = (gate.TopHatCZ, gate.LocalR, gate.LocalRz, gate.GlobalR, gate.GlobalRz, init.Fill, measure.Measure, path.Play)

    def block(b):
        out = []
        for s in b.stmts:
            if isinstance(s, dev):
                out.append("RDev")
            elif isinstance(s, scf.IfElse):
                out.append(f"RIf {region(s.then_body)} {region(s.else_body)}")
            elif isinstance(s, scf.For):
                out.append(f"RFor {region(s.body)}")
            elif isinstance(s, func.Invoke):
                callee = s.callee
                key = f"{callee.sym_name}#{id(callee) % 100000}"
                if id(callee) not in seen:
                    seen[id(callee)] = key
                    table[key] = None
                    table[key] = region(callee.callable_region)
                out.append(f"RInvoke {cstr(seen[id(callee)])}")
            elif isinstance(s, HIGHER_ORDER):
                # the function operand is applied to every element: a loop of calls
                h = s.fn.hints.get("const")
                if isinstance(h, const.Value) and isinstance(h.data, ir.Method):
                    callee = h.data
                    key = f"{callee.sym_name}#{id(callee) % 100000}"
                    if id(callee) not in seen:
                        seen[id(callee)] = key
                        table[key] = None
                        table[key] = region(callee.callable_region)
                    out.append(f"RFor [RInvoke {cstr(seen[id(callee)])}]")
                elif isinstance(h, const.PartialLambda) and h.code.get_trait(ir.CallableStmtInterface) is not None:
                    body = h.code.get_trait(ir.CallableStmtInterface).get_callable_region(h.code)
                    out.append(f"RFor [RCallLam (Some {region(body)})]")
                else:
                    out.append("RFor [RCallLam None]")
            elif isinstance(s, func.Call):
                h = s.callee.hints.get("const")
                if isinstance(h, const.PartialLambda) and h.code.get_trait(ir.CallableStmtInterface) is not None:
                    body = h.code.get_trait(ir.CallableStmtInterface).get_callable_region(h.code)
                    out.append(f"RCallLam (Some {region(body)})")
                else:
                    out.append("RCallLam None")
        return clist(out)

    def region(r):
        return block(r.blocks[0]) if r.blocks else "[]"
    return region(m.callable_region)


class _Hang(BaseException):
    pass


SHARED_ANALYSIS = []


def query(m, limit=20, shared=False):
    """-> 'True' | 'False' | 'refuses' | 'NO-ANSWER' (the query did not come back within `limit` seconds);
    shared=True asks one long-lived RuntimeAnalysis object that has answered all earlier queries of this run"""
    import signal
    from bloqade.shuttle.analysis.runtime import RuntimeAnalysis as _RA
    from bloqade.shuttle.prelude import move
    if shared and not SHARED_ANALYSIS:
        SHARED_ANALYSIS.append(_RA(move))
    RuntimeAnalysis = (lambda _m: SHARED_ANALYSIS[0]) if shared else _RA

    def on_alarm(*a):
        raise _Hang()
    old = signal.signal(signal.SIGALRM, on_alarm)
    signal.alarm(limit)
    try:
        return "True" if RuntimeAnalysis(move).has_quantum_runtime(m) else "False"
    except _Hang:
        return "NO-ANSWER"
    except BaseException as e:
        if isinstance(e, (KeyboardInterrupt, SystemExit)):
            raise
        return "refuses"
    finally:
        signal.alarm(0)
        signal.signal(signal.SIGALRM, old)


def reflect_tables(ctx, S):
    """one-statement kernels: exactly the eight device-visible statements answer True"""
    table = {}
    for name, stmt in list(DEV.items()) + [("pure-arithmetic", "qq = n + 1"), ("grid-op", "qq = grid.shift(z0, 1.0, 1.0)"),
                                            ("device_fn-only", "qq = schedule.reverse(ff)"), ("filled-op", "qq = filled.vacate(z0, [(0, 0)])")]:
        m = kernels.define(TW + f"@move\ndef main(n: int, c: bool):\n{PRO}    {stmt}\n")["main"]
        table[name] = query(m)
    want = {k: "True" for k in DEV}
    want.update({"pure-arithmetic": "False", "grid-op": "False", "device_fn-only": "False", "filled-op": "False"})
    ctx.extra["reflected_single_statement_answers"] = table
    ctx.obligation("reflected: the statements answering True are exactly the eight device-visible ones", table == want,
                   str({k: v for k, v in table.items() if v != want[k]}))
    for k, v in table.items():
        if v != want[k] and k in DEV and v == "False":
            ctx.fail({"kind": "device-statement-not-flagged", "stmt": k}, {"stmt": DEV[k]}, f"a kernel whose only statement is {DEV[k]} is answered False")


OPERANDS = {"zone": "z0", "slice-view": "z0[0:2, :]", "sub_grid": "grid.sub_grid(z0, [0], [0, 1])", "shift": "grid.shift(z0, 1.0, 0.0)",
            "from_positions": "grid.from_positions([0.0, 1.0], [0.0])", "scale": "grid.scale(z0, 2.0, 1.0)", "run-time view": "z0[n:, :]"}
ON_GRID = {"fill": "init.fill([{G}])", "cz": "gate.top_hat_cz({G})", "local_r": "gate.local_r(0.5, 1.0, {G})", "local_rz": "gate.local_rz(1.0, {G})",
           "measure": "measure.measure(({G},))"}
ANNOTATIONS = ["grid.Grid[Any, Any]", "grid.Grid[Literal[4], Any]", "grid.Grid[Literal[4], Literal[3]]", "grid.Grid[Any, Literal[3]]"]


def operand_forms(ctx, S):
    """the statements that act on a grid, with operands of every static type a kernel can give them: the zone itself, views,
    shifted / scaled / freshly built grids, and subroutine parameters annotated with and without literal sizes"""
    import typing
    n = 0
    cases = []
    for on, o in OPERANDS.items():
        for kn, k in ON_GRID.items():
            cases.append((f"{kn} on {on}", TW + f"@move\ndef main(n: int, c: bool):\n{PRO}    {k.replace('{G}', o)}\n"))
    for ann in ANNOTATIONS:
        for kn, k in ON_GRID.items():
            cases.append((f"{kn} on a parameter annotated {ann}",
                          TW + f"@move\ndef sub(g: {ann}):\n    {k.replace('{G}', 'g')}\n\n@move\ndef main(n: int, c: bool):\n{PRO}    sub(z0)\n"))
    for label, src in cases:
        try:
            m = kernels.define(src, Literal=typing.Literal)["main"]
        except Exception as e:
            ctx.hist("operand forms", f"definition error {type(e).__name__}")
            continue
        st, evs, _ = events.run_events(m, (1, True), S)
        ans = query(m)
        ctx.evaluations += 1
        n += 1
        ctx.hist("operand forms", f"{'acts' if evs else 'never acts'} -> {ans}")
        if evs and ans == "False":
            ctx.fail({"kind": "false-for-acting-kernel", "position": "operand-form", "form": label.split(" on ")[1][:40]}, {"operand_form": label, "src": src},
                     f"has_quantum_runtime answers False although the kernel performs {label}")
        if evs:
            ctx.nt(("operand", label))
    ctx.count("device statements x operand forms (views, shifted/scaled/built grids, annotated parameters)", n)


def reflect_depth(ctx, S):
    """the analysis looks at least as deep as the interpreters execute (Model.Runtime's d is ONE bound for both)"""
    from bloqade.shuttle.analysis.runtime import RuntimeAnalysis
    from bloqade.shuttle.arch import ArchSpecInterpreter
    from bloqade.shuttle.prelude import move
    from kirin.interp import Interpreter
    a = RuntimeAnalysis(move).max_depth
    i = max(Interpreter(move).max_depth, ArchSpecInterpreter(move, arch_spec=S).max_depth)
    ctx.extra["reflected_max_depth"] = {"analysis": a, "interpreters": i}
    ctx.obligation("reflected: RuntimeAnalysis.max_depth >= the interpreters' max_depth (frames the analysis refuses to enter are frames no execution enters)",
                   a >= i, f"analysis {a} < interpreters {i}")


def shared_subroutine_history(ctx, S):
    """a subroutine SHARED by two kernels (it looks the spec up and calls a closure of its own): the query about the kernel that was compiled
    without a spec is answered the same before and after the OTHER kernel is compiled with arch_spec= (the injection copies what it reaches
    and must leave the originals as they were)"""
    for sname, stext in (("quiet", QUIET), ("cz", DEV["cz"])):
        subclo = ("@move\ndef subclo(m: int):\n" + PRO + "    w = spec.get_int_constant(constant_id=\"rows\")\n    def inner(k: int):\n        " + stext + "\n        return k + m + w\n"
                  "    if m > 5:\n        return inner(3)\n    return inner(2)\n\n")
        src = TW + subclo + "@move\ndef main(n: int, c: bool):\n    r = subclo(n)\n    return r\n"
        rep = {"shared_subroutine_history": True, "statement": sname}
        try:
            ns = kernels.define(src)
            before = query(ns["main"])
            other = kernels.define("@move(arch_spec=S)\ndef other(n: int, c: bool):\n    return subclo(n) + 1\n", S=S, subclo=ns["subclo"])["other"]
            after, about_other = query(ns["main"]), query(other)
        except Exception as e:
            ctx.obligation("the shared-subroutine history can be defined", False, f"{type(e).__name__}: {e}"[:200])
            continue
        ctx.evaluations += 3
        want = "False" if sname == "quiet" else "True"
        ctx.hist("shared subroutine history", f"{sname}: before {before}, after the other compilation {after}, the other kernel {about_other}")
        if before != want or after != before or about_other != want:
            ctx.fail({"kind": "answer-depends-on-query-history", "position": "subroutine shared with a kernel compiled with arch_spec", "statement": sname}, rep,
                     f"kernel over a shared subroutine ({sname} statement in its closure): answered {before} before and {after} after ANOTHER kernel reaching the same subroutine was "
                     f"compiled with arch_spec= (that kernel: {about_other}); expected {want} throughout")
        else:
            ctx.nt(("shared-subroutine-history", sname))


def translated_analysis(ctx):
    """how the analysis propagates its flag, read from source on every run (harness/gen/runtime_translate.py, fail-closed): the handlers of
    analysis/runtime.py and dialects/*/runtime.py become Gallina one-step functions proved equal to Model.Runtime's for every statement"""
    from gen import runtime_translate
    from vcommon import paths
    name = ("analysis/runtime.py and dialects/{gate,init,measure,path}/runtime.py are inside the translated fragment "
            "(generated model Gen_C09_src.v)")
    try:
        body = runtime_translate.generate(paths.REPO)
    except Exception as e:
        ctx.obligation(name, False, f"{type(e).__name__}: {e}"[:300])
        return
    ctx.obligation(name, True)
    ok, log = coqrun.compile_lemma_file(ctx.bdir, "Gen_C09_src", body, timeout=300)
    closed = log.count("Closed under the global context")
    ctx.obligation("the translated flag propagation equals Model.Runtime's scan for every statement, nested contribution and callee "
                   "(src_scan_stmt, src_scan_higher, src_analyze; marking statements = device_statements), closed under the global context",
                   ok and closed >= 3, log[-600:])


def run(ctx):
    S = tweezer_prog.harness_spec()
    translated_analysis(ctx)
    shared_subroutine_history(ctx, S)
    reflect_tables(ctx, S)
    reflect_depth(ctx, S)
    operand_forms(ctx, S)
    T = templates()
    ctx.rule = (f"each of the eight device-visible statements (and a quiet statement) at each of {len(T)} positions: top level, either branch, after a "
                "returning if, loop bodies with and without loop-carried variables at nesting depth 1-3, loops inside branches inside loops, "
                "subroutines (plain, in a loop, recursive), closures called directly / in a loop / after being returned / never, before and after "
                "a dynamically resolved call; every kernel is executed for all (n, c) in {0,1,2} x {False,True} to see whether it acts; "
                "non-trivial = distinct (position, statement) kernels that act for some arguments")
    ctx.exhaustive = True
    cases = []
    stmts = list(DEV.items()) + [("quiet", QUIET)]
    if ctx.quick:
        # every position with two device statements and the quiet one; every statement at three positions
        keep = {(t, s) for t in T for s in ("cz", "play", "quiet")} | {(t, s) for t in ("top", "loop2-carried", "subroutine", "after-filled-grid-statements",
                                                                                  "subroutine-with-filled-grid-statements-first") for s, _ in stmts}
    else:
        keep = {(t, s) for t in T for s, _ in stmts}
    for tname, tsrc in T.items():
        for sname, stext in stmts:
            if (tname, sname) not in keep:
                continue
            src = TW + (tsrc if isinstance(tsrc, str) else tsrc[2]).replace("{X}", stext)
            try:
                m, src = define_template(tsrc, stext)
            except Exception as e:
                ctx.hist("outcome", f"definition error {type(e).__name__}")
                ctx.extra.setdefault("definition_errors", []).append(f"{tname}/{sname}: {type(e).__name__}: {str(e)[:80]}")
                continue
            ctx.evaluations += 1
            acting = []
            for a in ARGS:
                st, evs, _ = events.run_events(m, a, S)
                if evs:
                    acting.append(a)
            ans = query(m)
            table, seen = {}, {}
            body = abstract(m, table, seen)
            whole = body + " ".join(str(v) for v in table.values())
            # "dynamically resolved" = the compiled call carries no constant hint for its callee (this includes a
            # local closure that reaches the call through a loop-carried block argument)
            quiet_graph = "RDev" not in whole and "RCallLam None" not in whole
            rep = {"position": tname, "statement": sname, "src": src}
            ctx.hist("answer", f"{'acts' if acting else 'never acts'} -> {ans}")
            if ans == "NO-ANSWER":
                ctx.fail({"kind": "query-does-not-answer", "position": tname}, rep,
                         f"has_quantum_runtime neither answers nor refuses within 20 s (position: {tname}, statement {sname})")
                cases.append(("([], [])", "skip", rep))
                continue
            # the same question put to an analysis object that has already answered other questions (and this one once before)
            again = [query(m, shared=True), query(m, shared=True)]
            if any(a != ans for a in again):
                ctx.fail({"kind": "answer-depends-on-query-history", "position": tname}, rep,
                         f"a fresh RuntimeAnalysis answers {ans}, a reused one answers {again} (position: {tname}, statement {sname})")
            if acting and ans == "False":
                ctx.fail({"kind": "false-for-acting-kernel", "position": tname}, rep,
                         f"has_quantum_runtime answers False although the kernel performs {sname} for arguments {acting[0]} (position: {tname})")
            if quiet_graph and ans != "False":
                ctx.fail({"kind": "quiet-kernel-not-false", "position": tname, "answer": ans}, rep,
                         f"a kernel without any device-visible statement or dynamic call is answered {ans} (position: {tname})")
            # the same kernel after spec injection - compiled with the spec, and injected after it had been compiled (a kernel that already
            # carries the hints of an earlier compilation): injecting constants adds neither device statements nor dynamic calls
            for variant in ("compiled with arch_spec", "HintZone applied after compilation", "InjectSpecsPass applied after compilation"):
                try:
                    if variant == "compiled with arch_spec":
                        m2 = define_template(tsrc, stext, main_dec="(arch_spec=S)", S=S)[0]
                    elif variant == "HintZone applied after compilation":
                        # the package's other analysis pass annotates the same kernel first: it adds its own hints and is a reader otherwise
                        from bloqade.shuttle.passes.hint_zone import HintZone
                        from bloqade.shuttle.prelude import move as _move
                        m2 = define_template(tsrc, stext)[0]
                        HintZone(_move, arch_spec=S)(m2)
                    else:
                        from bloqade.shuttle.passes.inject_spec import InjectSpecsPass
                        from bloqade.shuttle.prelude import move as _move
                        m2 = define_template(tsrc, stext)[0]
                        InjectSpecsPass(_move, arch_spec=S)(m2)
                    ans2 = query(m2)
                except Exception as e:
                    ans2 = f"definition error {type(e).__name__}"
                ctx.evaluations += 1
                ctx.hist("answer after spec injection", f"{'acts' if acting else 'never acts'} -> {ans2}")
                rep2 = dict(rep, variant=variant)
                if acting and ans2 == "False":
                    ctx.fail({"kind": "false-for-acting-kernel", "position": tname, "variant": variant}, rep2,
                             f"{variant}: has_quantum_runtime answers False although the kernel performs {sname} for arguments {acting[0]} (position: {tname})")
                if quiet_graph and ans == "False" and ans2 != "False":
                    ctx.fail({"kind": "quiet-kernel-not-false", "position": tname, "answer": ans2, "variant": variant}, rep2,
                             f"{variant}: a kernel without any device-visible statement or dynamic call (answered False before the injection) is answered {ans2} (position: {tname})")
            if acting:
                ctx.nt((tname, sname))
            prog = clist([f"({cstr(k)}, {v})" for k, v in table.items()])
            cases.append((f"({prog}, {body})", ans, rep))
    ctx.sample({"position": "loop2-carried", "kernel": (T["loop2-carried"].replace("{X}", DEV["cz"]))[-400:]})
    if ctx.extra.get("definition_errors"):
        ctx.obligation("every template kernel can be defined", False, "; ".join(ctx.extra["definition_errors"][:4]))
    chunks = [cases[i:i + 80] for i in range(0, len(cases), 80)]
    bodies = [(f"rt_{k}", COQ_IMPORT + "Eval vm_compute in (lines (map (fun c => show_answer (analyze 128 (fst c) (snd c))) %s))." %
               clist([c[0] for c in ch])) for k, ch in enumerate(chunks)]
    mism = []
    for ch, (ok, vals, log) in zip(chunks, coqrun.eval_many(ctx.bdir, bodies)):
        if not ok or len(vals) != 1 or len(vals[0]) != len(ch):
            ctx.obligation("coqc runtime file evaluates", False, log[-800:])
            continue
        for c, line in zip(ch, vals[0]):
            if c[1] != "skip" and line != c[1]:
                mism.append({"model": line, "impl": c[1], "position": c[2]["position"], "statement": c[2]["statement"]})
    ctx.correspondence("Model.Runtime.analyze on the abstracted IR vs RuntimeAnalysis.has_quantum_runtime", len(cases), mism)
    ctx.explanation = ("Theorems: analyze = False implies no execution (any branch, trip count, dynamic callee; call depth bounded like the "
                       "interpreters' max_depth) performs a device-visible operation; a quiet call graph gets False; a reachable dynamic call makes "
                       "the query refuse. The analysis model is tied to the implementation on every (position x statement) kernel through an IR "
                       "abstraction; 'acts' is established by concrete executions over all arguments of a small domain.")


def replay(data):
    inp = data["input"]
    if inp.get("shared_subroutine_history"):
        class C:
            def __init__(s): s.fails, s.evaluations = [], 0
            def fail(s, sig, rep, what): s.fails.append(what)
            def nt(s, *a): pass
            def hist(s, *a): pass
            def obligation(s, n, ok, log=""):
                if not ok: s.fails.append(n)
        c = C()
        shared_subroutine_history(c, tweezer_prog.harness_spec())
        return bool(c.fails), (c.fails or ["the answers do not depend on the other compilation"])[0][:200]
    if "src" not in inp:
        return True, "re-run bin/check C09"
    S = tweezer_prog.harness_spec()
    stmts = dict(list(DEV.items()) + [("quiet", QUIET)])
    if inp.get("position") in templates() and inp.get("statement") in stmts:
        m, _ = define_template(templates()[inp["position"]], stmts[inp["statement"]])
    else:
        import typing
        m = kernels.define(inp["src"], Literal=typing.Literal)["main"]
    acting = [a for a in ARGS if events.run_events(m, a, S)[1]]
    ans = query(m)
    table, seen = {}, {}
    whole = abstract(m, table, seen) + " ".join(str(v) for v in table.values())
    quiet = "RDev" not in whole and "RCallLam None" not in whole
    if inp.get("variant") and inp.get("position") in templates():
        if inp["variant"] == "compiled with arch_spec":
            m2 = define_template(templates()[inp["position"]], stmts[inp["statement"]], main_dec="(arch_spec=S)", S=S)[0]
        elif inp["variant"] == "HintZone applied after compilation":
            from bloqade.shuttle.passes.hint_zone import HintZone
            from bloqade.shuttle.prelude import move as _move
            m2 = define_template(templates()[inp["position"]], stmts[inp["statement"]])[0]
            HintZone(_move, arch_spec=S)(m2)
        else:
            from bloqade.shuttle.passes.inject_spec import InjectSpecsPass
            from bloqade.shuttle.prelude import move as _move
            m2 = define_template(templates()[inp["position"]], stmts[inp["statement"]])[0]
            InjectSpecsPass(_move, arch_spec=S)(m2)
        ans2 = query(m2)
        return (bool(acting) and ans2 == "False") or (quiet and ans == "False" and ans2 != "False"), f"acts for {acting[:2]}; answer {ans}, after injection {ans2}"
    return (bool(acting) and ans == "False") or (quiet and ans != "False"), f"acts for {acting[:2]}; answer {ans}"
