"""C03 - schedule-to-path lowering preserves calls, grouping, order and arguments."""
import itertools

from vcommon import coqrun
from vcommon.coqrun import clist, cstr

from gen import kernels, move_prog

COQ_IMPORT = "From BS Require Import Core.Show Model.Sched2Path.\n"


# ---------- descriptors shared by the source view and the IR view ----------
def num_desc(v):
    if isinstance(v, bool):
        return repr(v)
    if isinstance(v, float):
        return repr(v)
    if isinstance(v, int):
        return str(v)
    return "?"


def dev_desc(kern, rev, tones=None):
    import ast
    xt, yt = tones or tuple(ast.literal_eval(t) for t in move_prog.TONES.get(kern, ("[0, 1]", "[0]")))
    return f"{'rev' if rev else 'fwd'}:{kern}[{','.join(map(str, xt))}|{','.join(map(str, yt))}]"


def src_callee_desc(prog, callee, in_auto):
    if in_auto:
        return f"task:{callee}"
    rev = False
    while callee.startswith("schedule.reverse("):
        callee = callee[len("schedule.reverse("):-1]
        rev = not rev
    if callee in getattr(prog, "param_devs", ()):
        return ("rev:" if rev else "fwd:") + "arg:" + callee
    for var, kern, r in prog.devs:
        if var == callee:
            return dev_desc(kern, rev != r)
    return "?" + callee


def src_arg_desc(a):
    return num_desc(a[1]) if a[0] == "lit" else "?"


# ---------- source tree -> Coq items / python spec ----------
def call_tuple(prog, st, in_auto):
    _, callee, pos, kws = st
    return (src_callee_desc(prog, callee, in_auto), [src_arg_desc(a) for a in pos], [k for k, _ in kws], [src_arg_desc(v) for _, v in kws])


def call_coq(c):
    s = lambda l: clist([cstr(x) for x in l])
    return f"(mkcall {cstr(c[0])} {s(c[1])} {s(c[2])} {s(c[3])})"


def sched_coq(prog, st, kind):
    if st[0] == "call":
        return f"SCall {call_coq(call_tuple(prog, st, kind == 'auto'))}"
    return f"SBlock {'KPar' if st[1] == 'parallel' else 'KAuto'} {clist([sched_coq(prog, c, st[1]) for c in st[2]])}"


GATE_TAG = {"top_hat_cz": "cz", "local_r": "local_r", "local_rz": "local_rz", "global_r": "global_r", "global_rz": "global_rz"}


def item_coq(prog, st):
    k = st[0]
    if k == "call":
        return f"ICall {call_coq(call_tuple(prog, st, False))}"
    if k == "block":
        return f"IBlock {'KPar' if st[1] == 'parallel' else 'KAuto'} {clist([sched_coq(prog, c, st[1]) for c in st[2]])}"
    if k == "gate":
        return f"IOther {cstr(GATE_TAG[st[1]])}"
    if k == "fill":
        return f"IOther {cstr('fill')}"
    if k == "measure":
        return f"IOther {cstr('measure')}"
    if k == "if":
        return f"IIf {clist([item_coq(prog, s) for s in st[2]])} {clist([item_coq(prog, s) for s in st[3]])}"
    if k == "for":
        return f"IFor {clist([item_coq(prog, s) for s in st[3]])}"
    raise ValueError(k)


def call_text(c):
    return c[0] + "(" + ",".join(c[1] + [f"{k}={v}" for k, v in zip(c[2], c[3])]) + ")"


def spec_members(prog, kind, st):
    """Python twin of Model.Sched2Path.spec_members (the property's statement)"""
    if st[0] == "call":
        return [call_text(call_tuple(prog, st, kind == "auto"))]
    inner = [m for c in st[2] for m in spec_members(prog, st[1], c)]
    if st[1] == kind:
        return inner
    return [st[1] + "{" + ";".join(inner) + "}"]


def spec_item(prog, st):
    k = st[0]
    if k == "call":
        return "play " + call_text(call_tuple(prog, st, False))
    if k == "block":
        return "play " + st[1] + "{" + ";".join(m for c in st[2] for m in spec_members(prog, st[1], c)) + "}"
    if k == "gate":
        return GATE_TAG[st[1]]
    if k in ("fill", "measure"):
        return k
    if k == "if":
        return "if{" + ";".join(spec_item(prog, s) for s in st[2]) + "}else{" + ";".join(spec_item(prog, s) for s in st[3]) + "}"
    if k == "for":
        return "for{" + ";".join(spec_item(prog, s) for s in st[3]) + "}"
    raise ValueError(k)


def spec_text(prog):
    return ";".join(spec_item(prog, s) for s in prog.body)


# ---------- compiled IR -> the same vocabulary ----------
def resolve(v, depth=0):
    """look through the plumbing kirin's lowering adds around loops and branches: loop-carried
    block arguments, loop results and if/else results of variables that are merely captured"""
    from kirin import ir
    from kirin.dialects import scf
    if depth > 30:
        return v
    if isinstance(v, ir.BlockArgument):
        blk = v.owner
        st = blk.parent.parent_node if blk.parent is not None else None
        if isinstance(st, scf.For) and v.index >= 1 and v.index - 1 < len(st.initializers):
            return resolve(st.initializers[v.index - 1], depth + 1)
        return v
    if isinstance(v, ir.ResultValue):
        st = v.owner
        if isinstance(st, scf.For):
            i = list(st.results).index(v)
            if i < len(st.initializers):
                return resolve(st.initializers[i], depth + 1)
        if isinstance(st, scf.IfElse):
            i = list(st.results).index(v)
            outs = []
            for reg in (st.then_body, st.else_body):
                last = reg.blocks[0].last_stmt
                if isinstance(last, scf.Yield) and i < len(last.values):
                    outs.append(resolve(last.values[i], depth + 1))
            if outs and all(o is outs[0] for o in outs):
                return outs[0]
    return v


def const_of(v):
    from kirin.dialects import py
    v = resolve(v)
    o = getattr(v, "owner", None)
    if isinstance(o, py.Constant):
        val = o.value
        return True, (val.unwrap() if hasattr(val, "unwrap") else getattr(val, "data", val))
    return False, None


def ir_callee_desc(v):
    from kirin.dialects import py
    from bloqade.shuttle.dialects import schedule
    v = resolve(v)
    o = getattr(v, "owner", None)
    from kirin import ir as _ir
    if isinstance(v, _ir.BlockArgument) and v.name:
        return "fwd:arg:" + v.name            # a device function received as a kernel parameter
    isc, val = const_of(v)
    if isc:
        if isinstance(val, schedule.DeviceFunction):
            return dev_desc(val.move_fn.sym_name, False, (list(val.x_tones), list(val.y_tones)))
        if isinstance(val, schedule.ReverseDeviceFunction):
            d = val.device_task
            return dev_desc(d.move_fn.sym_name, True, (list(d.x_tones), list(d.y_tones)))
        return "?const"
    if isinstance(o, schedule.NewTweezerTask):
        isc, m = const_of(o.move_fn)
        return f"task:{m.sym_name}" if isc and hasattr(m, "sym_name") else "task:?"
    if isinstance(o, schedule.Reverse):
        d = ir_callee_desc(o.device_fn)
        return ("rev:" + d[4:]) if d.startswith("fwd:") else ("fwd:" + d[4:]) if d.startswith("rev:") else "?"
    if isinstance(o, schedule.NewDeviceFunction):
        ok1, m = const_of(o.move_fn)
        ok2, xt = const_of(o.x_tones)
        ok3, yt = const_of(o.y_tones)
        if ok1 and ok2 and ok3:
            return dev_desc(m.sym_name, False, (list(xt), list(yt)))
    return "?"


def ir_arg_desc(v):
    isc, val = const_of(v)
    return num_desc(val) if isc else "?"


def ir_tree(v):
    from bloqade.shuttle.dialects import path
    v = resolve(v)
    o = getattr(v, "owner", None)
    if isinstance(o, path.Gen):
        ins = list(o.inputs)
        nk = len(o.kwargs)
        pos = [ir_arg_desc(a) for a in ins[:len(ins) - nk]]
        kw = [f"{k}={ir_arg_desc(a)}" for k, a in zip(o.kwargs, ins[len(ins) - nk:])]
        return ir_callee_desc(o.device_task) + "(" + ",".join(pos + kw) + ")"
    if isinstance(o, (path.Parallel, path.Auto)):
        return ("parallel" if isinstance(o, path.Parallel) else "auto") + "{" + ";".join(ir_tree(p) for p in o.paths) + "}"
    return "?value"


def ir_items(block_or_region, problems):
    from kirin.dialects import func, scf
    from bloqade.shuttle.dialects import gate, init, measure, path, schedule
    out = []
    from kirin import ir as _ir
    stmts = block_or_region.blocks[0].stmts if isinstance(block_or_region, _ir.Region) else block_or_region.stmts
    for s in stmts:
        if isinstance(s, path.Play):
            out.append("play " + ir_tree(s.path))
        elif isinstance(s, gate.TopHatCZ):
            out.append("cz")
        elif isinstance(s, gate.LocalR):
            out.append("local_r")
        elif isinstance(s, gate.LocalRz):
            out.append("local_rz")
        elif isinstance(s, gate.GlobalR):
            out.append("global_r")
        elif isinstance(s, gate.GlobalRz):
            out.append("global_rz")
        elif isinstance(s, init.Fill):
            out.append("fill")
        elif isinstance(s, measure.Measure):
            out.append("measure")
        elif isinstance(s, scf.IfElse):
            out.append("if{" + ";".join(ir_items(s.then_body, problems)) + "}else{" + ";".join(ir_items(s.else_body, problems)) + "}")
        elif isinstance(s, scf.For):
            out.append("for{" + ";".join(ir_items(s.body, problems)) + "}")
        elif isinstance(s, (schedule.Parallel, schedule.Auto)):
            problems.append("a schedule block survived compilation")
            out.append("SCHEDULE-BLOCK")
        elif isinstance(s, func.Call) and s.callee.type.is_subseteq(schedule.DeviceFunctionType):
            problems.append("a device call survived compilation")
            out.append("DEVICE-CALL")
    return out


def ir_text(m):
    problems = []
    items = ir_items(m.callable_region.blocks[0], problems)
    return ";".join(items), problems


def check_prog(ctx, prog, cases, label):
    src = move_prog.render(prog)
    ctx.evaluations += 1
    want = spec_text(prog)
    rep = {"src": src}
    try:
        m = kernels.define(src)["main"]
    except Exception as e:
        ctx.fail({"kind": "does-not-compile", "error": type(e).__name__}, rep, f"move kernel rejected by the pipeline: {type(e).__name__}: {str(e)[:150]}")
        return
    got, problems = ir_text(m)
    for pr in set(problems):
        ctx.fail({"kind": "survivor", "what": pr}, rep, pr)
    if got != want:
        ctx.fail({"kind": "lowering-differs", "expected": want[:160], "got": got[:160]}, rep,
                 f"compiled kernel is not what the source says: expected {want[:200]} got {got[:200]}")
    if "{" in want:
        ctx.nt(want)
    cases.append((clist([item_coq(prog, s) for s in prog.body]), want, got, src))


# ---------- fixed programs, EXECUTED: which call each played path belongs to ----------
KA_SRC = """
@tweezer
def ka(a: float, b: float):
    g = grid.from_positions([a, a + 2.0], [b])
    action.set_loc(g)
    action.turn_on(action.ALL, [0])
    action.move(grid.shift(g, b, a))
    action.turn_off(action.ALL, [0])
"""
# another kernel with the SAME name (as a second module or a factory would produce)
KA2_SRC = """
@tweezer
def ka(a: float, b: float):
    g = grid.from_positions([b], [a, a + 1.0])
    action.set_loc(g)
    action.turn_on([0], action.ALL)
    action.move(grid.shift(g, a, b))
    action.move(grid.shift(g, a, 2.0 * b))
    action.turn_off([0], action.ALL)
"""
BINDING_SRC = """
@move{DEC}
def main({PARAMS}):
    f = schedule.device_fn(kA, [0, 1], [0])
    g = schedule.device_fn(kB, [0], [0, 1])
    h = schedule.device_fn(kA, [0, 1], [1])
    e = schedule.device_fn(kA, [1, 0], [0])
    f({X}, {Y})
    f(b={X}, a={Y})
    f(a={X}, b={Y})
    g({X}, {Y})
    g(b={X}, a={Y})
    with schedule.parallel():
        f({X}, b={Y})
        g(b={X}, a={Y})
        f(b={X}, a={Y})
        with schedule.parallel():
            g({X}, {Y})
        f(a={Y}, b={X})
    schedule.reverse(f)(b={X}, a={Y})
    schedule.reverse(f)({X}, {Y})
    h({X}, {Y})
    e({X}, {Y})
    schedule.reverse(h)({X}, {Y})
"""
# (kernel, a, b, reversed) per call, as the SOURCE says; X = 1.0, Y = 2.0
BINDING_WANT = [("A", 1.0, 2.0, False), ("A", 2.0, 1.0, False), ("A", 1.0, 2.0, False), ("B", 1.0, 2.0, False), ("B", 2.0, 1.0, False),
                [("A", 1.0, 2.0, False), ("B", 2.0, 1.0, False), ("A", 2.0, 1.0, False), ("B", 1.0, 2.0, False), ("A", 2.0, 1.0, False)],
                ("A", 2.0, 1.0, True), ("A", 1.0, 2.0, True),
                # the SAME kernel with the same x tones and other y tones / the x tones in another order
                ("A", 1.0, 2.0, False, ([0, 1], [1])), ("A", 1.0, 2.0, False, ([1, 0], [0])), ("A", 1.0, 2.0, True, ([0, 1], [1]))]


def binding_cases(ctx):
    """fixed kernels in which the same values are written in the same order with DIFFERENT bindings (positional / keyword orders), for two
    different tweezer kernels that share one name; compiled on six routes and EXECUTED: every play must carry the path of its own call"""
    from kirin.dialects import ilist
    from bloqade.shuttle.codegen.taskgen import TraceInterpreter, reverse_path
    from bloqade.shuttle.dialects.path import Path
    from gen import tweezer_prog
    from props import tracer_common as tc
    from vcommon import events
    S = tweezer_prog.harness_spec()
    kA, kB = kernels.define(KA_SRC)["ka"], kernels.define(KA2_SRC)["ka"]
    tones = {"A": ([0, 1], [0]), "B": ([0], [0, 1])}

    def path_of(c):
        kern, a, b, rev = c[:4]
        xt, yt = c[4] if len(c) > 4 else tones[kern]
        p = TraceInterpreter(S).run_trace({"A": kA, "B": kB}[kern], (a, b), {})
        return Path(ilist.IList(xt), ilist.IList(yt), reverse_path(p) if rev else p)
    events._register()
    want_evs = [("play", events.Group("parallel", tuple(path_of(c) for c in w)) if isinstance(w, list) else path_of(w)) for w in BINDING_WANT]
    want = events.events_text(want_evs, tc.PosTable())
    n = 0
    for operands in ("literal", "run-time"):
        X, Y, params, args = ("1.0", "2.0", "", ()) if operands == "literal" else ("x", "y", "x: float, y: float", (1.0, 2.0))
        for dec, plain in (("", False), ("(fold=False)", False), ("(arch_spec=S)", True), ("(arch_spec=S, fold=False)", True), ("(arch_spec=S)", False),
                           ("(arch_spec=S, aggressive=True)", True)):
            src = BINDING_SRC.replace("{DEC}", dec).replace("{PARAMS}", params).replace("{X}", X).replace("{Y}", Y)
            rep = {"binding_src": src, "operands": operands, "plain": plain}
            ctx.evaluations += 1
            n += 1
            try:
                m = kernels.define(src, kA=kA, kB=kB, S=S)["main"]
                st, evs, extra = events.run_events(m, args, S, plain=plain)
            except Exception as e:
                st, evs, extra = "err", [], f"definition failed: {type(e).__name__}: {e}"
            got = events.events_text(evs, tc.PosTable()) if st == "ok" else ["ERR " + str(extra)[:100]]
            if got != want:
                k = next((j for j in range(min(len(got), len(want))) if got[j] != want[j]), min(len(got), len(want)))
                ctx.fail({"kind": "played-path-is-not-the-path-of-its-call", "decorator": dec, "operands": operands}, rep,
                         f"@move{dec} ({operands} operands): play {k} is {(got[k] if k < len(got) else '<none>')[:120]} but the source says "
                         f"{(want[k] if k < len(want) else '<none>')[:120]}")
            else:
                ctx.nt(("binding", dec, operands, plain))
    ctx.count("fixed binding / same-name programs executed (6 routes x literal / run-time operands)", n)


KG_SRC = """
@tweezer
def kg(g: grid.Grid[Any, Any], dx: float):
    action.set_loc(g)
    action.turn_on(action.ALL, [0])
    action.move(grid.shift(g, dx, 0.5))
"""

GRID_ARG_SRC = """
@move{DEC}
def main(c: bool):
    f = schedule.device_fn(kg, [0, 1], [0, 1])
    f(Z, 1.0)
    f(FZ, 1.0)
    with schedule.parallel():
        f(FZ2, 1.0)
        f(Z, 1.0)
        f(g=FZ, dx=1.0)
    if c:
        z = FZ
    else:
        z = Z
    f(z, 1.0)
    gate.local_rz(0.5, FZ2)
    gate.local_rz(0.5, Z)
"""


def grid_argument_cases(ctx):
    """device calls whose argument is a captured grid CONSTANT: a plain zone, a filled copy of it, and a filled copy with other vacancies - the
    same geometry, three different values; alone, in a group, and selected by a run-time branch: every call's path is the path for ITS
    grid (the expectation is the tweezer kernel's source evaluated natively on that grid)"""
    from kirin.dialects import ilist
    from bloqade.geometry.dialects.grid import Grid
    from bloqade.shuttle.dialects.filled.types import FilledGrid
    from bloqade.shuttle.dialects.path import Path
    from gen import tweezer_prog
    from props import tracer_common as tc
    from vcommon import events
    S = tweezer_prog.harness_spec()
    Z = Grid.from_positions([0.0, 3.0], [0.0, 2.0])
    FZ = FilledGrid(parent=Z, vacancies=frozenset({(0, 0)}))
    FZ2 = FilledGrid(parent=Z, vacancies=frozenset({(1, 1), (0, 1)}))
    kg = kernels.define(KG_SRC)["kg"]
    grids = {"Z": Z, "FZ": FZ, "FZ2": FZ2}

    def path_of(name):
        nat = tc.run_native(KG_SRC, "kg", (grids[name], 1.0), S)
        return Path(ilist.IList([0, 1]), ilist.IList([0, 1]), tc.concrete_path(tc.ref_trace(nat[1])))
    events._register()
    n = 0
    for c in (True, False):
        want_evs = [("play", path_of("Z")), ("play", path_of("FZ")), ("play", events.Group("parallel", (path_of("FZ2"), path_of("Z"), path_of("FZ")))),
                    ("play", path_of("FZ" if c else "Z")), ("local_rz", 0.5, FZ2), ("local_rz", 0.5, Z)]
        want = events.events_text(want_evs, tc.PosTable())
        for dec, plain in (("", False), ("(fold=False)", False), ("(arch_spec=S)", True), ("(arch_spec=S, fold=False)", True), ("(arch_spec=S)", False),
                           ("(arch_spec=S, aggressive=True)", True)):
            src = GRID_ARG_SRC.replace("{DEC}", dec)
            rep = {"grid_argument_src": src, "c": c, "plain": plain}
            ctx.evaluations += 1
            n += 1
            try:
                m = kernels.define(src, kg=kg, S=S, Z=Z, FZ=FZ, FZ2=FZ2)["main"]
                st, evs, extra = events.run_events(m, (c,), S, plain=plain)
            except Exception as e:
                st, evs, extra = "err", [], f"definition failed: {type(e).__name__}: {e}"
            got = events.events_text(evs, tc.PosTable()) if st == "ok" else ["ERR " + str(extra)[:100]]
            if got != want:
                k = next((j for j in range(min(len(got), len(want))) if got[j] != want[j]), min(len(got), len(want)))
                ctx.fail({"kind": "played-path-is-not-the-path-of-its-call", "decorator": dec, "operands": "grid constants"}, rep,
                         f"@move{dec} (c={c}): event {k} is {(got[k] if k < len(got) else '<none>')[:130]} but the source says "
                         f"{(want[k] if k < len(want) else '<none>')[:130]}")
            else:
                ctx.nt(("grid-argument", dec, c, plain))
    ctx.count("programs whose device calls take a zone / a filled copy / another filled copy as constants (6 routes x both branches)", n)


CAPTURED_SRC = """
@move{DEC}
def main(x: float):
    FWD(x, 2.0)
    BWD(x, 2.0)
    BWD(b=1.0, a=x)
    with schedule.parallel():
        BWD(1.0, 2.0)
        FWD(1.0, 2.0)
        schedule.reverse(BWD)(2.0, 1.0)
"""

CLOSURE_SRC = """
@move{DEC}
def main(x: float):
    f = schedule.device_fn(ka, [0, 1], [0])
    def inner(k: int):
        # device calls and a block inside a local function that captures nothing but the device function
        f(1.0, 2.0)
        with schedule.parallel():
            f(2.0, 1.0)
            schedule.reverse(f)(b=2.0, a=1.0)
        return k
    r = inner(1)
    f(x, 2.0)
    q = inner(2)
"""


def captured_functions_and_closures(ctx):
    """device functions BUILT ON THE HOST and captured by the kernel (a forward one and a reversed one), and device calls / blocks inside a
    local function that captures only the device function: every call is played as the path of its own call, in its own direction"""
    from kirin.dialects import ilist
    from bloqade.shuttle.dialects.path import Path
    from bloqade.shuttle.dialects.schedule import DeviceFunction, ReverseDeviceFunction
    from gen import tweezer_prog
    from props import tracer_common as tc
    from vcommon import events
    S = tweezer_prog.harness_spec()
    ka = kernels.define(KA_SRC)["ka"]
    FWD = DeviceFunction(move_fn=ka, x_tones=ilist.IList([0, 1]), y_tones=ilist.IList([0]))
    BWD = ReverseDeviceFunction(FWD)

    def P(a, b, rev):
        ref = tc.ref_trace(tc.run_native(KA_SRC, "ka", (a, b), S)[1])
        return Path(ilist.IList([0, 1]), ilist.IList([0]), tc.concrete_path(tc.rev_abs(ref) if rev else ref))
    events._register()
    G = lambda *ms: events.Group("parallel", tuple(ms))
    progs = {"captured": (CAPTURED_SRC, [("play", P(1.5, 2.0, False)), ("play", P(1.5, 2.0, True)), ("play", P(1.5, 1.0, True)),
                                         ("play", G(P(1.0, 2.0, True), P(1.0, 2.0, False), P(2.0, 1.0, False)))]),
             "closure": (CLOSURE_SRC, [("play", P(1.0, 2.0, False)), ("play", G(P(2.0, 1.0, False), P(1.0, 2.0, True))), ("play", P(1.5, 2.0, False)),
                                       ("play", P(1.0, 2.0, False)), ("play", G(P(2.0, 1.0, False), P(1.0, 2.0, True)))])}
    n = 0
    for pname, (tsrc, want_evs) in progs.items():
        want = events.events_text(want_evs, tc.PosTable())
        for dec, plain in (("", False), ("(fold=False)", False), ("(arch_spec=S)", True), ("(arch_spec=S, fold=False)", True), ("(arch_spec=S)", False), ("(arch_spec=S, aggressive=True)", True)):
            src = tsrc.replace("{DEC}", dec)
            rep = {"captured_or_closure_src": src, "program": pname, "plain": plain}
            ctx.evaluations += 1
            n += 1
            try:
                m = kernels.define(src, ka=ka, S=S, FWD=FWD, BWD=BWD)["main"]
                st, evs, extra = events.run_events(m, (1.5,), S, plain=plain)
            except Exception as e:
                st, evs, extra = "err", [], f"definition failed: {type(e).__name__}: {e}"
            got = events.events_text(evs, tc.PosTable()) if st == "ok" else ["ERR " + str(extra)[:100]]
            if got != want:
                k = next((j for j in range(min(len(got), len(want))) if got[j] != want[j]), min(len(got), len(want)))
                ctx.fail({"kind": "played-path-is-not-the-path-of-its-call", "decorator": dec, "operands": pname}, rep,
                         f"@move{dec} ({pname}): play {k} is {(got[k] if k < len(got) else '<none>')[:120]} but the source says {(want[k] if k < len(want) else '<none>')[:120]}")
            else:
                ctx.nt(("captured-or-closure", pname, dec, plain))
    ctx.count("programs with host-built device functions / device calls inside a local function (6 routes)", n)


def run(ctx):
    grid_argument_cases(ctx)
    captured_functions_and_closures(ctx)
    ctx.rule = ("move kernels mixing device calls (positional/keyword in permuted order, forward/reversed/inline-reversed callees), nested "
                "parallel/auto blocks, gates, fills, measurements, if/for: ALL nesting shapes up to depth/width/call bounds (quick 2/2/4, "
                "thorough 3/3/5) as single-block kernels, plus random programs with blocks nested up to depth 4; the compiled IR is abstracted "
                "by following SSA edges from every path.Play; non-trivial = distinct programs containing a block")
    cases = []
    d, w, c = ctx.pick((2, 2, 4), (3, 3, 5))
    shapes = list(move_prog.all_block_shapes(d, w, c))
    if ctx.quick and len(shapes) > 400:
        shapes = ctx.rng.sample(shapes, 400)
    elif len(shapes) > 6000:
        shapes = ctx.rng.sample(shapes, 6000)
    ctx.count("block_shapes", len(shapes))
    for sh in shapes:
        counter = itertools.count(1)
        prog = move_prog.MProg(params=[], devs=[("f0", "k0", False), ("r0", "k0", True), ("f1", "k1", False)],
                               body=[move_prog.shape_to_block(sh, counter)])
        check_prog(ctx, prog, cases, "shape")
    for i in range(ctx.pick(150, 2000)):
        prog = move_prog.gen_move_prog(ctx.rng, depth=4, const_control=False, param_dev=ctx.rng.random() < 0.5)
        if prog.param_devs and ctx.rng.random() < 0.5:
            # the received device function is a reversed one (the documented type of schedule.reverse's result)
            prog.params = [(n, "schedule.ReverseDeviceFunction" if n == "pf" else a) for n, a in prog.params]
            prog.tags.add("parameter annotated schedule.ReverseDeviceFunction")
        for t in prog.tags:
            ctx.hist("program_features", t)
        check_prog(ctx, prog, cases, "rand")
        if i == 0:
            ctx.sample({"kernel": move_prog.render(prog).split("@move")[-1], "lowered": cases[-1][2] if cases else None})
    binding_cases(ctx)
    chunks = [cases[i:i + 120] for i in range(0, len(cases), 120)]
    bodies = [(f"low_{k}", COQ_IMPORT + "Eval vm_compute in (lines (map (fun p => (show_pitems (compile_impl p) ++ \"##\" ++ show_pitems (compile_spec p))%%string) %s))." %
               clist([c[0] for c in ch])) for k, ch in enumerate(chunks)]
    mism, twin = [], []
    for ch, (ok, vals, log) in zip(chunks, coqrun.eval_many(ctx.bdir, bodies)):
        if not ok or len(vals) != 1 or len(vals[0]) != len(ch):
            ctx.obligation("coqc lowering file evaluates", False, log[-800:])
            continue
        for cse, line in zip(ch, vals[0]):
            impl_m, spec_m = line.split("##")
            if spec_m != cse[1]:
                twin.append({"coq_spec": spec_m[:200], "python_spec": cse[1][:200]})
            if impl_m != cse[2]:
                mism.append({"model": impl_m[:300], "impl": cse[2][:300], "src": cse[3][-600:]})
    ctx.correspondence("Coq compile_spec = Python twin of the specification", len(cases), twin)
    ctx.correspondence("Coq compile_impl (pass model) vs the IR the pipeline produced", len(cases), mism)
    ctx.explanation = ("Theorems for ALL nesting shapes: the pass model (post-order Canonicalize, call rewriting, use-count membership) equals the "
                       "specification; the specification keeps every call once, in order, with its arguments, one play per top-level call/block, "
                       "same-kind blocks merged. The pass model is tied to the real pipeline by comparing the abstracted IR. kirin's CSE/DCE and "
                       "the lowering of Python to IR are exercised, not verified.")


def replay(data):
    if "captured_or_closure_src" in data["input"]:
        class C:
            def __init__(s): s.fails, s.evaluations = [], 0
            def fail(s, sig, rep, what): s.fails.append(what)
            def nt(s, *a): pass
            def count(s, *a): pass
        c = C()
        captured_functions_and_closures(c)
        return bool(c.fails), (c.fails or ["every call plays the path of its own call"])[0][:200]
    if "grid_argument_src" in data["input"]:
        class C:
            def __init__(s): s.fails, s.evaluations = [], 0
            def fail(s, sig, rep, what): s.fails.append(what)
            def nt(s, *a): pass
            def count(s, *a): pass
        c = C()
        grid_argument_cases(c)
        return bool(c.fails), (c.fails or ["every call plays the path for its own grid"])[0][:200]
    inp = data["input"]
    if "binding_src" in inp:
        class C:
            def __init__(s): s.fails, s.evaluations = [], 0
            def fail(s, sig, rep, what): s.fails.append(what)
            def nt(s, *a): pass
            def count(s, *a): pass
        c = C()
        binding_cases(c)
        return bool(c.fails), (c.fails or ["every play carries the path of its own call"])[0][:200]
    m = kernels.define(inp["src"])["main"]
    got, problems = ir_text(m)
    exp = data["signature"].get("expected")
    return bool(problems) or (exp is not None and not got.startswith(exp[:100])), f"lowered to {got[:300]} {problems}"
