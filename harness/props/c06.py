"""C06 - spec injection is behaviour preserving and complete."""
from vcommon import coqrun
from vcommon.coqrun import cZ, clist, cstr

from gen import kernels, tweezer_prog

COQ_IMPORT = "From BS Require Import Core.Show Core.Base Model.Inject.\n"
# names per lookup kind; "both" names a static trap AND a (different) special grid; zero / origin are constants whose value is falsy;
# "dup" is an int constant AND a (different) float constant
LK = {"LStatic": ("spec.get_static_trap", "zone_id", ["traps", "aux", "both"]), "LSpecial": ("spec.get_special_grid", "grid_id", ["park", "both"]),
      "LInt": ("spec.get_int_constant", "constant_id", ["rows", "zero", "dup"]), "LFloat": ("spec.get_float_constant", "constant_id", ["pitch", "origin", "dup"])}
# names the spec does not know UNDER THAT KIND (some are known under another kind)
ABSENT = {"LStatic": ["nowhere", "park"], "LSpecial": ["nowhere", "traps"], "LInt": ["nowhere", "pitch"], "LFloat": ["nowhere", "rows"]}


def c06_spec():
    from bloqade.geometry.dialects.grid import Grid
    from bloqade.shuttle.arch import ArchSpec, Layout
    traps = Grid.from_positions([0.0, 2.0, 4.0, 6.5], [0.0, 3.0, 6.0])
    aux = Grid.from_positions([20.0, 21.0, 22.0], [1.0, 2.0, 3.0, 4.0])
    both_t = Grid.from_positions([40.0, 41.0], [0.0, 1.0])
    park = Grid.from_positions([-4.0, -2.0], [0.5, 1.5])
    both_s = Grid.from_positions([-41.5, -40.0], [7.0, 9.0])
    lay = Layout(static_traps={"traps": traps, "aux": aux, "both": both_t}, fillable={"traps"}, has_cz={"traps"},
                 has_local={"aux"}, special_grid={"park": park, "both": both_s})
    return ArchSpec(layout=lay, float_constants={"pitch": 2.5, "origin": 0.0, "dup": 4.5}, int_constants={"rows": 3, "zero": 0, "dup": 4})


import re
ABSENT_RE = re.compile("|".join(re.escape(f'{LK[k][0]}({LK[k][1]}="{nm}")') for k in LK for nm in ABSENT[k]))


class TooSlow(BaseException):
    pass


class time_limit:
    def __init__(self, seconds):
        self.seconds = seconds

    def __enter__(self):
        import signal

        def on_alarm(*a):
            raise TooSlow()
        self.old = signal.signal(signal.SIGALRM, on_alarm)
        signal.alarm(self.seconds)

    def __exit__(self, *a):
        import signal
        signal.alarm(0)
        signal.signal(signal.SIGALRM, self.old)
        return False


# ---------- expression trees ----------
def rnd_lookup(rng, p_absent=0.06):
    k = rng.choice(list(LK))
    name = rng.choice(ABSENT[k]) if rng.random() < p_absent else rng.choice(LK[k][2])
    return ("lookup", k, name)


def atom(rng, env, meths, depth, p_absent=0.0):
    """a non-tail expression; names absent from the spec only where the value is certainly used
    (an unused failing expression may legitimately be removed by dead-code elimination)"""
    r = rng.random()
    if r < 0.40:
        return rnd_lookup(rng, p_absent)
    if r < 0.55 and env["vals"]:
        return ("var", rng.choice(env["vals"]))
    if r < 0.65:
        return ("int", rng.randint(0, 5))
    if r < 0.72:
        return ("float", rng.choice([0.5, 2.0, 7.25]))
    if r < 0.80 and env["lams"]:
        return ("call", ("var", rng.choice(env["lams"])))
    if r < 0.92 and meths and depth < 2:
        m = rng.choice(meths)
        args = [("int", rng.randint(0, 2)) if p == "d" else atom(rng, env, [], depth + 1) for p in m[1]]
        # sometimes written with keyword arguments in another order than the signature (same binding)
        order = list(range(len(args)))
        if len(args) >= 2 and rng.random() < 0.7:
            order.reverse()
            return ("invoke", m[0], args, [(m[1][i], i) for i in order])
        return ("invoke", m[0], args)
    return ("tuple", [atom(rng, env, meths, depth + 1) for _ in range(rng.randint(1, 3))])


def gen_body(rng, params, meths, self_name=None, allow_closure_result=True):
    """let-chain ending in a tail expression"""
    env = {"vals": [p for p in params if p != "d"], "lams": []}
    lets = []
    for i in range(rng.randint(1, 4)):
        if rng.random() < 0.3:
            f = f"lam{i}"
            lets.append((f, ("lam", ("tuple", [atom(rng, env, meths, 1) for _ in range(rng.randint(1, 2))]))))
            env["lams"].append(f)
        else:
            x = f"x{i}"
            lets.append((x, atom(rng, env, meths, 0)))
            env["vals"].append(x)
    res = ("tuple", [atom(rng, env, meths, 0) for _ in range(rng.randint(1, 3))])
    if self_name and "d" in params:
        # recursion: descend until d >= K, then return the result (possibly a closure over it)
        base = res
        if allow_closure_result and rng.random() < 0.4:
            base = ("lam", res)
        tail = ("if", ("ge", ("var", "d"), ("int", rng.randint(1, 2))), base,
                ("invoke", self_name, [("add", ("var", "d"), ("int", 1)) if p == "d" else ("var", p) for p in params]))
        if base[0] == "lam":
            return lets, tail, True
        return lets, tail, False
    return lets, res, False


def gen_table(rng):
    meths = []          # (name, params, lets, tail, returns_closure)
    for i in range(rng.randint(1, 3)):
        name = f"m{i}"
        params = ["d"] + (["q"] if rng.random() < 0.6 else [])
        lets, tail, clos = gen_body(rng, params, [(m[0], m[1]) for m in meths if not m[4]], self_name=name if rng.random() < 0.6 else None)
        meths.append((name, params, lets, tail, clos))
    callable_ = [(m[0], m[1]) for m in meths if not m[4]]
    lets, tail, _ = gen_body(rng, [], callable_)
    if rng.random() < 0.15 and tail[0] == "tuple":
        tail = ("tuple", tail[1] + [rnd_lookup(rng, 1.0)])
    clos = [m for m in meths if m[4]]
    if clos and rng.random() < 0.8:
        c = rng.choice(clos)
        tail = ("call", ("invoke", c[0], [("int", 0) if p == "d" else ("float", 1.5) for p in c[1]]))
    meths.append(("root", [], lets, tail, False))
    return meths


# ---------- rendering to Python ----------
def py_expr(e):
    k = e[0]
    if k == "lookup":
        f, kw, _ = LK[e[1]]
        return f'{f}({kw}="{e[2]}")'
    if k == "var":
        return e[1]
    if k == "int":
        return str(e[1])
    if k == "float":
        return repr(e[1])
    if k == "tuple":
        return "(" + ", ".join(py_expr(x) for x in e[1]) + ("," if len(e[1]) == 1 else "") + ")"
    if k == "ge":
        return f"{py_expr(e[1])} >= {py_expr(e[2])}"
    if k == "add":
        return f"{py_expr(e[1])} + {py_expr(e[2])}"
    if k == "invoke":
        if len(e) > 3:
            return f"{e[1]}({', '.join(p + '=' + py_expr(e[2][i]) for p, i in e[3])})"
        return f"{e[1]}({', '.join(py_expr(a) for a in e[2])})"
    if k == "call":
        return f"{py_expr(e[1])}()"
    raise ValueError(k)


def py_method(m, decorator):
    name, params, lets, tail, _ = m
    ann = {"d": "d: int", "q": "q"}
    out = [decorator, f"def {name}({', '.join(ann.get(p, p) for p in params)}):"]
    for x, e in lets:
        if e[0] == "lam":
            out += [f"    def {x}():", f"        return {py_expr(e[1])}"]
        else:
            out.append(f"    {x} = {py_expr(e)}")
    def tail_lines(t, ind):
        pad = "    " * ind
        if t[0] == "if":
            # fall-through form: kirin's type inference blows up on recursion below an if/else that returns in both arms
            return [pad + f"if {py_expr(t[1])}:"] + tail_lines(t[2], ind + 1) + tail_lines(t[3], ind)
        if t[0] == "lam":
            return [pad + "def res_lam():", pad + f"    return {py_expr(t[1])}", pad + "return res_lam"]
        return [pad + f"return {py_expr(t)}"]
    out += tail_lines(tail, 1)
    return "\n".join(out) + "\n"


def py_table(meths, root_decorator):
    return "\n".join(py_method(m, root_decorator if m[0] == "root" else "@move") for m in meths)


# ---------- rendering to Coq ----------
def coq_expr(e):
    k = e[0]
    if k == "lookup":
        return f"(ELookup {e[1]} {cstr(e[2])})"
    if k == "var":
        return f"(EVar {cstr(e[1])})"
    if k == "int":
        return f"(EInt {cZ(e[1])})"
    if k == "float":
        return f"(EFloat {cstr(repr(e[1]))})"
    if k == "tuple":
        return f"(ETuple {clist([coq_expr(x) for x in e[1]])})"
    if k == "ge":
        return f"(EGe {coq_expr(e[1])} {coq_expr(e[2])})"
    if k == "add":
        return f"(EAdd {coq_expr(e[1])} {coq_expr(e[2])})"
    if k == "invoke":
        return f"(EInvoke {cstr(e[1])} {clist([coq_expr(a) for a in e[2]])})"
    if k == "call":
        return f"(ECall {coq_expr(e[1])})"
    if k == "lam":
        return f"(ELam {coq_expr(e[1])})"
    if k == "if":
        return f"(EIf {coq_expr(e[1])} {coq_expr(e[2])} {coq_expr(e[3])})"
    raise ValueError(k)


def coq_method(m):
    name, params, lets, tail, _ = m
    body = coq_expr(tail)
    for x, e in reversed(lets):
        body = f"(ELet {cstr(x)} {coq_expr(e)} {body})"
    return f"({cstr(name)}, mkmethod {clist([cstr(p) for p in params])} {body})"


def spec_coq(S):
    tok = lambda n: cstr("G_" + n)
    ptok = lambda n: cstr("P_" + n)
    return (f"(mkspec {clist([f'({cstr(n)}, {tok(n)})' for n in S.layout.static_traps])} "
            f"{clist([f'({cstr(n)}, {ptok(n)})' for n in S.layout.special_grid])} "
            f"{clist([f'({cstr(n)}, {cZ(v)})' for n, v in S.int_constants.items()])} "
            f"{clist([f'({cstr(n)}, {cstr(repr(v))})' for n, v in S.float_constants.items()])})")


def show_value(v, S):
    from bloqade.geometry.dialects.grid import Grid
    from kirin import ir
    if isinstance(v, Grid):
        for n, g in S.layout.static_traps.items():
            if g == v:
                return "G_" + n
        for n, g in S.layout.special_grid.items():
            if g == v:
                return "P_" + n
        return "G?"
    if isinstance(v, bool):
        return "1" if v else "0"
    if isinstance(v, int):
        return str(v)
    if isinstance(v, float):
        return repr(v)
    if v is None:
        return "None"
    if isinstance(v, tuple):
        return "(" + ",".join(show_value(x, S) for x in v) + ")"
    if isinstance(v, ir.Method):
        return "<closure>"
    from bloqade.shuttle.dialects import schedule as _sched
    if isinstance(v, _sched.ReverseDeviceFunction):
        return "rev:" + show_value(v.device_task, S)
    if isinstance(v, _sched.DeviceFunction):
        return f"dev:{v.move_fn.sym_name}[{','.join(str(int(t)) for t in v.x_tones)}|{','.join(str(int(t)) for t in v.y_tones)}]"
    return "?" + type(v).__name__


def reflect_handled(ctx, S):
    from bloqade.shuttle.dialects import spec as spec_d
    handled, absent_left = {}, {}
    cls = {"LStatic": spec_d.GetStaticTrap, "LSpecial": spec_d.GetSpecialGrid, "LInt": spec_d.GetIntConstant, "LFloat": spec_d.GetFloatConstant}
    not_handled = []
    for k, (f, kw, names) in LK.items():
        handled[k], absent_left[k] = True, True
        for present, nm in [(True, n) for n in names] + [(False, n) for n in ABSENT[k]]:
            src = f'@move(arch_spec=S, fold=False)\ndef main():\n    return {f}({kw}="{nm}")\n'
            m = kernels.define(src, S=S)["main"]
            left = [s for s in m.callable_region.walk() if isinstance(s, cls[k])]
            if present and left:
                handled[k] = False
                not_handled.append((k, nm))
            if not present and not left:
                absent_left[k] = False
    body = coqrun.HEADER + COQ_IMPORT
    body += "Definition handled (k : lk) : bool := match k with " + " ".join(f"| {k} => {'true' if v else 'false'}" for k, v in handled.items()) + " end.\n"
    body += "Lemma inject_complete : forall k, handled k = true.\nProof. intros k; destruct k; reflexivity. Qed.\n"
    ok, log = coqrun.compile_lemma_file(ctx.bdir, "Gen_C06", body)
    ctx.obligation("Gen_C06: inject_complete (InjectSpecRule replaces every lookup kind whose name the spec knows)", ok, log[-400:])
    ctx.obligation("reflected: a lookup of a name absent from the spec is left in place (never given a value)", all(absent_left.values()), str(absent_left))
    ctx.extra["reflected_handled"] = handled
    for k, nm in not_handled:
        ctx.fail({"kind": "lookup-kind-not-injected", "lookup": k}, {"lookup": LK[k][0], "name": nm},
                 f"InjectSpecRule leaves {LK[k][0]}({nm!r}) in the compiled kernel although the spec knows the name; the plain interpreter cannot evaluate it")
    return handled


def single_lookup_cases(ctx, S):
    """every lookup kind with every name the spec knows under that kind and every name it does not (including names known under ANOTHER
    kind), directly and through a subroutine, fold on and off: same outcome on both routes, and absent names fail on both"""
    from bloqade.shuttle.arch import ArchSpecInterpreter
    from bloqade.shuttle.prelude import move
    n = 0
    for k, (f, kw, names) in LK.items():
        for present, nm in [(True, x) for x in names] + [(False, x) for x in ABSENT[k]]:
            for shape in ("direct", "subroutine"):
                for fold in (True, False):
                    call = f'{f}({kw}="{nm}")'
                    if shape == "direct":
                        body = f"def root():\n    return {call}\n"
                    else:
                        body = f"def helper():\n    return {call}\n\n@move{{DEC}}\ndef root():\n    return helper()\n"
                    src = "@move" + ("" if shape == "direct" else "") + ("{DEC}\n" if shape == "direct" else "\n") + body
                    ctx.evaluations += 1
                    n += 1
                    rep = {"lookup_src": src, "fold": fold, "name_known_under_this_kind": present}
                    try:
                        a = ("ok", kernels.define(src.replace("{DEC}", f"(arch_spec=S, fold={fold})"), S=S)["root"]())
                    except Exception as e:
                        a = ("err", type(e).__name__)
                    try:
                        b = ("ok", ArchSpecInterpreter(move, arch_spec=S).run(kernels.define(src.replace("{DEC}", ""), S=S)["root"], ()))
                    except Exception as e:
                        b = ("err", type(e).__name__)
                    ta = show_value(a[1], S) if a[0] == "ok" else "ERR"
                    tb = show_value(b[1], S) if b[0] == "ok" else "ERR"
                    if ta != tb:
                        ctx.fail({"kind": "behaviour-differs", "lookup": k, "name_known": present, "shape": shape}, rep,
                                 f"{call} ({shape}, fold={fold}): the compiled kernel gives {ta[:60]}, the unspecialised kernel against the spec gives {tb[:60]}")
                    elif not present and ta != "ERR":
                        ctx.fail({"kind": "absent-name-given-a-value", "lookup": k, "shape": shape}, rep,
                                 f"{call}: the spec does not know {nm!r} under this kind, yet both routes return {ta[:60]}")
                    elif present and ta == "ERR":
                        ctx.fail({"kind": "known-name-fails", "lookup": k, "shape": shape}, rep, f"{call}: the spec knows {nm!r}, yet both routes fail")
                    else:
                        ctx.nt(("single-lookup", k, nm, shape, fold))
    ctx.count("single lookups: kind x known/absent name x direct/subroutine x fold", n)


CLOSURE_SHAPES = {
    # closure without captures, lookups inside
    "no-capture": """
@move{MDEC}
def maker():
    def reader(a: int):
        return ({LOOKUPS}, a)
    return reader
""",
    # closure capturing looked-up values only
    "captures-lookups": """
@move{MDEC}
def maker():
    v = {L0}
    w = {L1}
    def reader(a: int):
        return (v, w, a)
    return reader
""",
    # closure doing lookups AND capturing ordinary compile-time-known values
    "captures-literals": """
@move{MDEC}
def maker():
    offset = 3
    scale = 2.0
    def reader(a: int):
        return ({LOOKUPS}, offset + a, scale)
    return reader
""",
    # closure capturing a literal, a looked-up value and another closure that looks up
    "captures-closure-and-literal": """
@move{MDEC}
def maker():
    offset = 5
    v = {L0}
    def inner(b: int):
        return ({L1}, b + offset)
    def reader(a: int):
        return (inner(a), v, offset)
    return reader
""",
    # closure capturing a run-time parameter of its maker
    "captures-parameter": """
@move{MDEC}
def maker(k: int):
    def reader(a: int):
        return ({LOOKUPS}, a + k)
    return reader
""",
}

CLOSURE_SHAPES["named-kernel-as-value"] = """
@move{MDEC}
def maker(k: int):
    return ({LOOKUPS}, k)

@move
def apply(f, k: int):
    return f(k)

@move{DEC}
def root(a: int):
    return apply(maker, a)
"""
CLOSURE_SHAPES["named-kernel-as-value-in-a-branch"] = """
@move{MDEC}
def maker(k: int):
    return ({LOOKUPS}, k)

@move
def other(k: int):
    return ({L1}, {L0}, k)

@move
def apply(f, k: int):
    return f(k)

@move{DEC}
def root(a: int):
    if a > 0:
        r = apply(maker, a)
    else:
        r = apply(other, a)
    return r
"""

# closures handed out in a tuple / a list by a folded subroutine
CLOSURE_SHAPES["closures-in-a-list"] = """
@move{MDEC}
def maker():
    def first(a: int):
        return ({L0}, a)
    def second(a: int):
        return ({L1}, a + 1)
    return [first, second]

@move{DEC}
def root(a: int):
    fs = maker()
    return (fs[0](a), fs[1](a))
"""
CLOSURE_SHAPES["closures-in-a-tuple"] = """
@move{MDEC}
def maker():
    def first(a: int):
        return ({L0}, a)
    def second(a: int):
        return ({L1}, a + 1)
    return (first, second)

@move{DEC}
def root(a: int):
    fs = maker()
    return (fs[0](a), fs[1](a))
"""
# a subroutine that returns from inside a branch, its fall-through value being a looked-up value (a constant once injected)
CLOSURE_SHAPES["early-return-in-a-branch"] = """
@move{MDEC}
def maker(k: int):
    v = {L0}
    if k > 0:
        return ({L1}, 7)
    return (v, 0)

@move{DEC}
def root(a: int):
    # (a consumer of the call's result all of whose other operands are constants)
    return (maker(a), 7)
"""

# device functions as VALUES: two over one kernel that differ in their y tones only (one tone from the spec) meeting at a run-time branch
CLOSURE_SHAPES["device-functions-at-a-join"] = """
@tweezer
def maker(p: float):
    action.set_loc(grid.from_positions([p], [0.0]))

@move{DEC}
def root(a: int):
    if a > 1:
        f = schedule.device_fn(maker, [0, 1], [0, spec.get_int_constant(constant_id="rows")])
    else:
        f = schedule.device_fn(maker, [0, 1], [0])
    g = schedule.reverse(f)
    return (f, g, {L0})
"""

CLOSURE_ROOT = """
@move{DEC}
def root(a: int):
    reader = maker({MARG})
    return reader(a)
"""


def closure_cases(ctx, S):
    """fixed closure shapes (no capture / captured lookups / captured literals / captured closure + literal / captured parameter), the maker
    folded and not folded before the injection, the root compiled with the spec with and without the trailing fold, every lookup kind inside"""
    from bloqade.shuttle.arch import ArchSpecInterpreter
    from bloqade.shuttle.prelude import move
    calls = {k: f'{f}({kw}="{names[0]}")' for k, (f, kw, names) in LK.items()}
    kinds = list(LK)
    n = 0
    for shape, tmpl in CLOSURE_SHAPES.items():
        for i, k in enumerate(kinds):
            l0, l1 = calls[k], calls[kinds[(i + 1) % len(kinds)]]
            for mdec in ("", "(fold=False)"):
                body = tmpl.replace("{LOOKUPS}", f"{l0}, {l1}").replace("{L0}", l0).replace("{L1}", l1).replace("{MDEC}", mdec)
                if "def root" not in body:
                    body += CLOSURE_ROOT.replace("{MARG}", "4" if shape == "captures-parameter" else "")
                for fold, arg in ((True, 1), (False, 1), (True, 2)):
                    ctx.evaluations += 1
                    n += 1
                    rep = {"closure_src": body, "fold": fold, "arg": arg}
                    try:
                        a = ("ok", kernels.define(body.replace("{DEC}", f"(arch_spec=S, fold={fold})"), S=S)["root"](arg))
                    except Exception as e:
                        a = ("err", type(e).__name__)
                    try:
                        b = ("ok", ArchSpecInterpreter(move, arch_spec=S).run(kernels.define(body.replace("{DEC}", ""), S=S)["root"], (arg,)))
                    except Exception as e:
                        b = ("err", type(e).__name__)
                    ta = show_value(a[1], S) if a[0] == "ok" else "ERR:" + a[1]
                    tb = show_value(b[1], S) if b[0] == "ok" else "ERR:" + b[1]
                    ctx.hist("closure shapes", shape + ": " + ("same value" if ta == tb and b[0] == "ok" else "both fail" if ta == tb else "DIFFER"))
                    if b[0] != "ok":
                        ctx.obligation(f"closure shape {shape} runs under the spec interpreter", False, tb)
                    elif ta != tb:
                        ctx.fail({"kind": "behaviour-differs", "closure_shape": shape, "lookup": k, "maker": mdec or "folded", "fold": fold}, rep,
                                 f"closure shape {shape} ({k}; maker @move{mdec}; root fold={fold}): the compiled kernel gives {ta[:70]}, "
                                 f"the unspecialised kernel against the spec gives {tb[:70]}")
                    else:
                        ctx.nt(("closure", shape, k, mdec, fold))
    ctx.count("closure shapes x lookup kind x maker folded/not x root fold", n)


def filled_spec():
    """zones that are FILLED grids: two static traps and two special grids over ONE underlying geometry that differ only in their vacancies,
    next to the plain zone itself under another name"""
    from bloqade.geometry.dialects.grid import Grid
    from bloqade.shuttle.arch import ArchSpec, Layout
    from bloqade.shuttle.dialects.filled.types import FilledGrid
    base = Grid.from_positions([0.0, 2.0, 4.0], [0.0, 3.0])
    sbase = Grid.from_positions([-4.0, -2.0], [0.5, 1.5])
    lay = Layout(static_traps={"plain": base, "fa": FilledGrid.vacate(base, [(0, 0)]), "fb": FilledGrid.vacate(base, [(1, 1)]), "fnone": FilledGrid.vacate(base, [])},
                 fillable={"plain"}, has_cz={"plain"}, has_local={"fa"},
                 special_grid={"sa": FilledGrid.vacate(sbase, [(0, 1)]), "sb": FilledGrid.vacate(sbase, [(1, 0)]), "splain": sbase})
    return ArchSpec(layout=lay, float_constants={}, int_constants={})


FILLED_SRC = """
@move
def pick(c: bool):
    if c:
        z = {A}
    else:
        z = {B}
    return z

@move{DEC}
def root(c: bool, n: int):
    z = {B}
    if c:
        z = {A}
    w = {A}
    i = 0
    for i in range(n):
        w = {B}
    return (z, pick(c), w, {A}, {B})
"""


def filled_zone_cases(ctx):
    """lookups of zones that are filled grids, meeting at joins that depend on run-time values; the value must be the zone the run selects"""
    from bloqade.shuttle.arch import ArchSpecInterpreter
    from bloqade.shuttle.prelude import move
    S = filled_spec()
    st = lambda n: f'spec.get_static_trap(zone_id="{n}")'
    sp = lambda n: f'spec.get_special_grid(grid_id="{n}")'
    pairs = [(st("fa"), st("fb")), (st("fb"), st("fa")), (st("plain"), st("fa")), (st("fnone"), st("plain")), (sp("sa"), sp("sb")), (sp("splain"), sp("sb")), (st("fa"), sp("sa"))]
    n = 0
    show = lambda v: repr([(type(g).__name__, tuple(g.x_positions), tuple(g.y_positions), sorted(getattr(g, "vacancies", ()))) for g in v])
    for A, B in pairs:
        body = FILLED_SRC.replace("{A}", A).replace("{B}", B)
        for fold in (True, False):
            for args in ((True, 0), (False, 0), (True, 2), (False, 1)):
                ctx.evaluations += 1
                n += 1
                rep = {"filled_src": body, "fold": fold, "args": list(args)}
                try:
                    a = show(kernels.define(body.replace("{DEC}", f"(arch_spec=S, fold={fold})"), S=S)["root"](*args))
                except Exception as e:
                    a = "ERR:" + type(e).__name__
                try:
                    b = show(ArchSpecInterpreter(move, arch_spec=S).run(kernels.define(body.replace("{DEC}", ""), S=S)["root"], args))
                except Exception as e:
                    b = "ERR:" + type(e).__name__
                if b.startswith("ERR"):
                    ctx.obligation("the filled-zone kernel runs under the spec interpreter", False, b)
                elif a != b:
                    ctx.fail({"kind": "behaviour-differs", "filled_zones": True, "fold": fold}, rep,
                             f"zones that are filled grids ({A} / {B}), args {args}, fold={fold}: the compiled kernel returns {a[:120]}, the unspecialised kernel against the spec {b[:120]}")
                else:
                    ctx.nt(("filled-zone", A, B, fold, args))
    ctx.count("filled-grid zones meeting at run-time joins x fold x arguments", n)


def translated_lookups(ctx):
    """where a lookup gets its value, read from source on every run (harness/gen/spec_translate.py, fail-closed): the injection rule and the
    run-time getters, both proved equal to Model.Inject.spec_lookup for every spec, kind and name"""
    from gen import spec_translate
    from vcommon import paths
    name = "passes/inject_spec.py (InjectSpecRule) and dialects/spec/concrete.py (ArchSpecMethods) are inside the translated fragment (generated model Gen_C06_src.v)"
    try:
        body = spec_translate.generate(paths.REPO)
    except Exception as e:
        ctx.obligation(name, False, f"{type(e).__name__}: {e}"[:300])
        return
    ctx.obligation(name, True)
    ok, log = coqrun.compile_lemma_file(ctx.bdir, "Gen_C06_src", body)
    closed = log.count("Closed under the global context")
    ctx.obligation("the translated injection rule and run-time getters equal spec_lookup (src_inject_rule_eq, src_runtime_lookup_eq), closed under the global context",
                   ok and closed >= 3, log[-600:])


DEVICE_CALL_SRC = """
@tweezer
def kd(p: float, q: float):
    z = spec.get_static_trap(zone_id="traps")
    s = z[0:2, 1]
    action.set_loc(s)
    action.turn_on([0, 1], [0])
    action.move(grid.shift(s, p, spec.get_float_constant(constant_id="pitch")))
    action.move(grid.shift(s, p, q))

@move{DEC}
def root(x: float):
    f = schedule.device_fn(kd, [0, 1], [0])
    f(1.0, 2.0)
    schedule.reverse(f)(1.0, 2.0)
    schedule.reverse(f)(q=0.5, p=x)
    with schedule.parallel():
        f(x, 0.25)
        schedule.reverse(f)(3.0, 4.0)
    schedule.reverse(schedule.reverse(f))(2.0, q=1.0)
"""


def device_call_kernels(ctx, S):
    """kernels that PLAY device functions, forward and reversed, with constant and run-time operands: what the compiled kernel plays under an
    executor that knows no spec is what the unspecialised kernel plays under an executor that carries the spec"""
    from props import tracer_common as tc
    from vcommon import events
    ref = events.run_events(kernels.define(DEVICE_CALL_SRC.replace("{DEC}", ""), S=S)["root"], (1.5,), S)
    want = events.events_text(ref[1], tc.PosTable()) if ref[0] == "ok" else None
    if want is None or len(want) != 5:
        ctx.obligation("the device-call kernel runs under the spec-carrying executor", False, str(ref[2])[:200])
        return
    for fold in (True, False):
        ctx.evaluations += 1
        rep = {"device_call_src": DEVICE_CALL_SRC, "fold": fold}
        try:
            m = kernels.define(DEVICE_CALL_SRC.replace("{DEC}", f"(arch_spec=S, fold={fold})"), S=S)["root"]
            st, evs, extra = events.run_events(m, (1.5,), S, plain=True)
        except Exception as e:
            st, evs, extra = "err", [], f"{type(e).__name__}: {e}"
        got = events.events_text(evs, tc.PosTable()) if st == "ok" else ["ERR " + str(extra)[:100]]
        if got != want:
            k = next((j for j in range(min(len(got), len(want))) if got[j] != want[j]), min(len(got), len(want)))
            ctx.fail({"kind": "behaviour-differs", "device_calls": True, "fold": fold}, rep,
                     f"@move(arch_spec=S, fold={fold}) kernel playing device functions: play {k} is {(got[k] if k < len(got) else '<none>')[:110]} but the unspecialised kernel "
                     f"under the spec plays {(want[k] if k < len(want) else '<none>')[:110]}")
        else:
            ctx.nt(("device-calls", fold))
    device_call_history(ctx, S)


ARGLESS_CALL_SRC = """
@tweezer
def kd():
    z = spec.get_static_trap(zone_id="traps")
    s = z[0:2, 1]
    action.set_loc(s)
    action.turn_on([0, 1], [0])
    action.move(grid.shift(s, spec.get_float_constant(constant_id="pitch"), 0.5))

@move{DEC}
def root(t: int):
    # device calls WITHOUT arguments, on a device function whose tones are only known at run time
    f = schedule.device_fn(kd, [t, 1], [0])
    f()
    schedule.reverse(f)()
    with schedule.parallel():
        f()
        schedule.reverse(f)()
    f()
"""


# the device functions, forward and reversed, are already CONSTANTS of a helper subroutine compiled on its own before the root is
SUBROUTINE_CALL_SRC = DEVICE_CALL_SRC.split("@move{DEC}")[0] + """
@move
def helper(x: float):
    f = schedule.device_fn(kd, [0, 1], [0])
    r = schedule.reverse(f)
    r(x, 2.0)
    f(1.0, x)
    schedule.reverse(r)(q=x, p=x)

@move{DEC}
def root(x: float):
    helper(x)
    helper(0.5)
"""


def device_call_history(ctx, S):
    for src_t, args in ((DEVICE_CALL_SRC, (1.5,)), (ARGLESS_CALL_SRC, (0,)), (SUBROUTINE_CALL_SRC, (1.5,))):
        _device_call_history(ctx, S, src_t, args)


def _device_call_history(ctx, S, SRC_T, ARGS):
    """ONE unspecialised kernel object that plays device functions, executed under spec S, then under another spec, then under S again, and
    finally compiled with the other spec: every execution plays what the kernel's source means under the spec of THAT execution (the
    expectation is the source evaluated natively), so executing a kernel under a spec leaves nothing of that spec behind on it"""
    from bloqade.geometry.dialects.grid import Grid
    from bloqade.shuttle.arch import ArchSpec, Layout
    from gen import move_native
    from props import tracer_common as tc
    from vcommon import events
    L = S.layout
    lay2 = Layout(static_traps={**L.static_traps, "traps": Grid.from_positions([100.0, 103.0, 107.0, 112.0], [50.0, 52.0, 55.0])}, fillable=set(L.fillable),
                  has_cz=set(L.has_cz), has_local=set(L.has_local), special_grid=dict(L.special_grid))
    S2 = ArchSpec(layout=lay2, float_constants={**S.float_constants, "pitch": 0.75}, int_constants=dict(S.int_constants))
    src = SRC_T.replace("{DEC}", "")
    ns = kernels.define(src, S=S)
    root = ns["root"]

    def native(X):
        r = move_native.run_native(src, ARGS, X, kernel_ns={"kd": ns["kd"]}, main="root")
        return events.events_text(r[1], tc.PosTable()) if r[0] == "ok" else None
    want = {"S": native(S), "S2": native(S2)}
    if want["S"] is None or want["S2"] is None or want["S"] == want["S2"] or len(want["S"]) < 4:
        ctx.obligation("the device-call kernel has native references that differ between the two specs", False, str(want)[:300])
        return
    steps = [("S", "run"), ("S2", "run"), ("S", "run"), ("S2", "compiled"), ("S", "compiled"), ("S2", "run")]
    for k, (name, how) in enumerate(steps):
        X = {"S": S, "S2": S2}[name]
        ctx.evaluations += 1
        rep = {"device_call_history": True, "argless": SRC_T is ARGLESS_CALL_SRC, "step": k, "steps": [list(t) for t in steps]}
        try:
            if how == "run":
                st, evs, extra = events.run_events(root, ARGS, X)
            else:
                m = kernels.define(SRC_T.replace("{DEC}", "(arch_spec=S)"), S=X)["root"]
                st, evs, extra = events.run_events(m, ARGS, X, plain=True)
        except Exception as e:
            st, evs, extra = "err", [], f"{type(e).__name__}: {e}"
        got = events.events_text(evs, tc.PosTable()) if st == "ok" else ["ERR " + str(extra)[:100]]
        if got != want[name]:
            j = next((j for j in range(min(len(got), len(want[name]))) if got[j] != want[name][j]), min(len(got), len(want[name])))
            ctx.fail({"kind": "behaviour-differs", "device_calls": True, "history_step": k, "how": how}, rep,
                     f"step {k} of {steps}: the kernel {'executed under' if how == 'run' else 'compiled with'} spec {name} plays "
                     f"{(got[j] if j < len(got) else '<none>')[:110]} where its source under that spec means {(want[name][j] if j < len(want[name]) else '<none>')[:110]}")
        else:
            ctx.nt(("device-call-history", k))


def forwarding_helper_history(ctx, S):
    """a helper WITHOUT any lookup that only forwards to a subroutine doing the lookups, shared by two kernels: one kernel is compiled with spec
    S, then the other is interpreted against / compiled with another spec - each sees the values of its own spec (and an absent name stays
    absent), and the shared helper, run on its own under either spec, still follows the spec of the run"""
    from bloqade.shuttle.arch import ArchSpec, ArchSpecInterpreter, Layout
    from bloqade.shuttle.prelude import move
    from bloqade.geometry.dialects.grid import Grid
    L = S.layout
    lay2 = Layout(static_traps={**L.static_traps, "traps": Grid.from_positions([100.0, 103.0, 107.0, 112.0], [50.0, 52.0, 55.0])}, fillable=set(L.fillable),
                  has_cz=set(L.has_cz), has_local=set(L.has_local), special_grid=dict(L.special_grid))
    S2 = ArchSpec(layout=lay2, float_constants={"pitch": 0.75, "origin": 1.0}, int_constants={"rows": 9, "zero": 0})          # no "dup" at all
    shared = ("@move\ndef deep(k: int):\n    return (spec.get_int_constant(constant_id=\"rows\") + k, spec.get_float_constant(constant_id=\"pitch\"), spec.get_static_trap(zone_id=\"traps\"))\n\n"
              "@move\ndef deep_dup():\n    return spec.get_float_constant(constant_id=\"dup\")\n\n"
              "@move\ndef forward(k: int):\n    return deep(k)\n\n@move\ndef forward_dup():\n    return deep_dup()\n\n")
    ns = kernels.define(shared)
    ka = "@move{DEC}\ndef ka(k: int):\n    return (forward(k), forward_dup())\n"
    kb = "@move{DEC}\ndef kb(k: int):\n    return (forward(k + 1), 7)\n"
    kc = "@move{DEC}\ndef kc(k: int):\n    return forward_dup()\n"
    show = lambda v: show_value(v, S)
    want = lambda X, k: ((X.int_constants["rows"] + k, X.float_constants["pitch"], X.layout.static_traps["traps"]))

    def run_plain(m, X, args):
        try:
            return show(ArchSpecInterpreter(move, arch_spec=X).run(m, args))
        except Exception as e:
            return "ERR"

    def compiled(src, X, name, args):
        try:
            return show(kernels.define(src.replace("{DEC}", "(arch_spec=S)"), S=X, **ns)[name](*args))
        except Exception as e:
            return "ERR"
    steps = [("ka compiled with S", lambda: compiled(ka, S, "ka", (1,)), show((want(S, 1), S.float_constants["dup"]))),
             ("kb interpreted against the other spec", lambda: run_plain(kernels.define(kb.replace("{DEC}", ""), **ns)["kb"], S2, (1,)), show((want(S2, 2), 7))),
             ("kb compiled with the other spec", lambda: compiled(kb, S2, "kb", (1,)), show((want(S2, 2), 7))),
             ("kc (a name the other spec does not have) interpreted against the other spec", lambda: run_plain(kernels.define(kc.replace("{DEC}", ""), **ns)["kc"], S2, (0,)), "ERR"),
             ("kc compiled with the other spec", lambda: compiled(kc, S2, "kc", (0,)), "ERR"),
             ("the shared helper itself under the other spec", lambda: run_plain(ns["forward"], S2, (0,)), show(want(S2, 0))),
             ("the shared helper itself under S", lambda: run_plain(ns["forward"], S, (0,)), show(want(S, 0))),
             ("ka compiled with S again", lambda: compiled(ka, S, "ka", (2,)), show((want(S, 2), S.float_constants["dup"])))]
    for k, (label, f, expect) in enumerate(steps):
        ctx.evaluations += 1
        got = f()
        if got != expect:
            ctx.fail({"kind": "behaviour-differs", "forwarding_helper": True, "step": k}, {"forwarding_helper_history": True, "step": k},
                     f"forwarding-helper history, step {k} ({label}) after {[s[0] for s in steps[:k]]}: got {got[:120]} expected {expect[:120]}")
            return
    ctx.nt(("forwarding-helper-history",))


def run(ctx):
    translated_lookups(ctx)
    from bloqade.shuttle.arch import ArchSpecInterpreter
    from bloqade.shuttle.prelude import move
    S = c06_spec()
    handled = reflect_handled(ctx, S)
    single_lookup_cases(ctx, S)
    closure_cases(ctx, S)
    filled_zone_cases(ctx)
    device_call_kernels(ctx, S)
    forwarding_helper_history(ctx, S)
    ctx.rule = ("tables of 2-4 @move kernels (root + subroutines, some recursive with a depth parameter, closures capturing looked-up values, "
                "closures returned from recursive subroutines and called by the root) mixing the four lookup kinds (6% absent names) with "
                "constants, tuples, variables; root compiled with arch_spec (fold on and off) and called through ir.Method.__call__ (plain "
                "interpreter) vs the unspecialised root run by ArchSpecInterpreter(spec); non-trivial = distinct tables whose result contains a looked-up value")
    cases = []
    for i in range(ctx.pick(70, 1500)):
        meths = gen_table(ctx.rng)
        fold = ctx.rng.random() < 0.5
        try:
            with time_limit(15):
                plain_ns = kernels.define(py_table(meths, "@move"), S=S)
        except TooSlow:
            ctx.hist("outcome", "skipped: kirin needs > 15 s to compile the table")
            continue
        except Exception as e:
            ctx.hist("outcome", "definition error " + type(e).__name__)
            continue
        try:
            with time_limit(25):
                spec_ns = kernels.define(py_table(meths, f"@move(arch_spec=S, fold={fold})"), S=S)
        except TooSlow:
            # kirin's constant propagation through mutually recursive kernels can take minutes; speed is not the property
            ctx.hist("outcome", "skipped: kirin needs > 25 s to compile the table with the spec")
            continue
        except Exception as e:
            # the same kernels are accepted without a spec: compiling them WITH the spec must not be refused
            ctx.evaluations += 1
            ctx.hist("outcome", "refused only when compiled with the spec")
            ctx.fail({"kind": "compile-with-spec-refused", "error": type(e).__name__}, {"src": py_table(meths, "@move"), "fold": fold},
                     f"kernels accepted by @move are refused by @move(arch_spec=..., fold={fold}): {type(e).__name__}: {str(e)[:150]}")
            continue
        ctx.evaluations += 1
        try:
            a = ("ok", spec_ns["root"]())
        except Exception as e:
            a = ("err", type(e).__name__)
        try:
            b = ("ok", ArchSpecInterpreter(move, arch_spec=S).run(plain_ns["root"], ()))
        except Exception as e:
            b = ("err", type(e).__name__)
        ta = show_value(a[1], S) if a[0] == "ok" else "ERR"
        tb = show_value(b[1], S) if b[0] == "ok" else "ERR"
        src = py_table(meths, "@move")
        has_absent = bool(ABSENT_RE.search(src))
        ctx.hist("outcome", ("both fail" if ta == tb == "ERR" else "same value" if ta == tb else "DIFFER") + (" (absent name)" if has_absent else ""))
        if ta != tb:
            kinds = sorted({k for k in LK if LK[k][0] in src})
            ctx.fail({"kind": "behaviour-differs", "compiled": ta[:60], "spec_interpreter": tb[:60], "fold": fold},
                     {"src": src, "fold": fold}, f"compiled-with-spec kernel returns {ta[:100]} but the unspecialised kernel against the spec returns {tb[:100]}")
        if "G_" in tb or "P_" in tb:
            ctx.nt(src)
        for k in LK:
            for nm in LK[k][2] + ABSENT[k]:
                if f'{LK[k][0]}({LK[k][1]}="{nm}")' in src:
                    ctx.hist("lookups generated", f"{k}:{nm}")
        cases.append((clist([coq_method(m) for m in meths]), ta, tb, src))
        if i == 0:
            ctx.sample({"kernels": src, "result": tb})
    tweezer_kernels(ctx, S)
    decorator_histories(ctx, S)
    sc = spec_coq(S)
    hd = "(fun k => match k with " + " ".join(f"| {k} => {'true' if v else 'false'}" for k, v in handled.items()) + " end)"
    chunks = [cases[i:i + 60] for i in range(0, len(cases), 60)]
    bodies = [(f"inj_{k}", COQ_IMPORT + "Definition S := " + sc + ".\nDefinition H := " + hd + ".\n"
               "Definition row (t : table) : string := (show_eval (eval 60 Plain (inject_table H S t) [] (EInvoke \"root\" [])) ++ \"##\" ++ "
               "show_eval (eval 60 (WithSpec S) t [] (EInvoke \"root\" [])))%string.\n"
               "Eval vm_compute in (lines (map row " + clist([c[0] for c in ch]) + ")).") for k, ch in enumerate(chunks)]
    mism = []
    for ch, (ok, vals, log) in zip(chunks, coqrun.eval_many(ctx.bdir, bodies)):
        if not ok or len(vals) != 1 or len(vals[0]) != len(ch):
            ctx.obligation("coqc inject file evaluates", False, log[-800:])
            continue
        for c, line in zip(ch, vals[0]):
            if line != c[1] + "##" + c[2]:
                mism.append({"model": line[:200], "impl": (c[1] + "##" + c[2])[:200], "src": c[3][:900]})
    ctx.correspondence("Model.Inject (plain eval of injected table ## spec eval of original) vs compiled kernel ## ArchSpecInterpreter", len(cases), mism)
    ctx.explanation = ("Theorem: with a total rule, plain evaluation of the injected program = spec evaluation of the original, for every program, "
                       "depth, recursion and closure; unknown names fail on both routes; an unhandled kind provably breaks. The rule's coverage of the "
                       "four kinds is reflected from the live code on every run. kirin's CallGraphPass cloning and the Fold that follows are exercised.")


TWEEZER_SRC = '''
@tweezer
def helper(k: int):
    z = spec.get_static_trap(zone_id="aux")
    return grid.shift(z[0:2, 0:1], spec.get_float_constant(constant_id="pitch"), 0.0)

@tweezer{DEC}
def main(n: int):
    z = spec.get_static_trap(zone_id="traps")
    action.set_loc(z[0:2, 0:1])
    action.turn_on(action.ALL, action.ALL)
    i = 0
    for i in range(spec.get_int_constant(constant_id="rows")):
        action.move(grid.shift(z[0:2, 0:1], spec.get_float_constant(constant_id="origin"), 1.0))
    action.move(helper(n))
    action.move(spec.get_special_grid(grid_id="park")[0:2, 0:1])
    action.turn_off(action.ALL, action.ALL)
'''


TWEEZER_CLOSURE_SRC = '''
@tweezer{DEC}
def main(n: int):
    z = spec.get_static_trap(zone_id="traps")
    def hop(g):
        action.move(g)
        action.turn_on(slice(1, None), [0])
    def back(k: int):
        action.move(grid.shift(z[0:2, 0:1], spec.get_float_constant(constant_id="pitch"), 1.0 * k))
        action.turn_off([0], action.ALL)
    action.set_loc(z[0:2, 0:1])
    action.turn_on(action.ALL, action.ALL)
    hop(spec.get_special_grid(grid_id="park")[0:2, 0:1])
    if n > 0:
        hop(spec.get_static_trap(zone_id="aux")[0:2, 0:1])
    back(n)
'''


def tweezer_kernels(ctx, S):
    for src in (TWEEZER_SRC, TWEEZER_CLOSURE_SRC):
        tweezer_kernels_of(ctx, S, src)


def tweezer_kernels_of(ctx, S, TWEEZER_SRC):
    """@tweezer(arch_spec=...) with and without the fold: traced WITHOUT any spec knowledge it must give the path the
    unspecialised kernel gives when traced with the spec"""
    from bloqade.shuttle.arch import ArchSpec
    from props import tracer_common as tc
    try:
        plain = kernels.define(TWEEZER_SRC.replace("{DEC}", ""), S=S)["main"]
        st0, ref = tc.run_impl(plain, (1,), S)
    except Exception as e:
        ctx.obligation("the tweezer kernels with lookups can be defined", False, f"{type(e).__name__}: {e}"[:200])
        return
    want = tc.abstract_path(ref) if st0 == "ok" else None
    for fold in (True, False):
        ctx.evaluations += 1
        rep = {"src": TWEEZER_SRC.replace("{DEC}", f"(arch_spec=S, fold={fold})"), "fold": fold, "kernel_kind": "tweezer"}
        try:
            m = kernels.define(TWEEZER_SRC.replace("{DEC}", f"(arch_spec=S, fold={fold})"), S=S)["main"]
        except Exception as e:
            ctx.fail({"kind": "compile-with-spec-refused", "kernel_kind": "tweezer", "error": type(e).__name__}, rep,
                     f"@tweezer(arch_spec=..., fold={fold}) refuses a kernel @tweezer accepts: {type(e).__name__}: {str(e)[:120]}")
            continue
        st, r = tc.run_impl(m, (1,), ArchSpec())
        got = tc.abstract_path(r) if st == "ok" else None
        ctx.hist("tweezer kernels", f"fold={fold}: " + ("same path" if got == want and want is not None else "DIFFER"))
        if got != want or want is None:
            ctx.fail({"kind": "behaviour-differs", "kernel_kind": "tweezer", "fold": fold}, rep,
                     f"@tweezer(arch_spec=S, fold={fold}) traced without a spec " + (f"fails ({r})" if st != "ok" else "gives another path") +
                     " than the unspecialised kernel traced with the spec")


def moved_spec():
    """the zone and constant names of c06_spec with other coordinates and other values"""
    from bloqade.geometry.dialects.grid import Grid
    from bloqade.shuttle.arch import ArchSpec, Layout
    traps = Grid.from_positions([100.0, 101.0, 103.0, 107.0], [50.0, 52.0, 55.0])
    aux = Grid.from_positions([-20.0, -18.5, -17.0], [11.0, 12.0, 14.0, 18.0])
    both_t = Grid.from_positions([60.0, 61.5], [2.0, 3.0])
    park = Grid.from_positions([-9.0, -8.0], [6.5, 7.5])
    both_s = Grid.from_positions([-71.5, -70.0], [17.0, 19.0])
    lay = Layout(static_traps={"traps": traps, "aux": aux, "both": both_t}, fillable={"traps"}, has_cz={"traps"},
                 has_local={"aux"}, special_grid={"park": park, "both": both_s})
    return ArchSpec(layout=lay, float_constants={"pitch": 1.25, "origin": 0.5, "dup": 8.5}, int_constants={"rows": 2, "zero": 0, "dup": 6})


LOOKUP_SRC = '''
@{DEC}(arch_spec=S, fold={FOLD})
def root():
    return (spec.get_static_trap(zone_id="traps"), spec.get_special_grid(grid_id="park"),
            spec.get_int_constant(constant_id="rows"), spec.get_float_constant(constant_id="pitch"))
'''


def decorator_histories(ctx, S):
    """kernels of each kind compiled one after the other against DIFFERENT specs in one process: each must carry the values
    of its own spec (a decorator that remembers an earlier spec, pass or table is a history-dependent injection)"""
    from bloqade.shuttle.arch import ArchSpec
    from props import tracer_common as tc
    S2 = moved_spec()
    specs = {"A": S, "B": S2}
    n = 0
    for dec in ("tweezer", "move", "kernel"):
        for fold in (True, False):
            for hist in (("A", "B", "A"), ("B", "B", "A")):
                for step, name in enumerate(hist):
                    X = specs[name]
                    src = LOOKUP_SRC.replace("{DEC}", dec).replace("{FOLD}", str(fold))
                    rep = {"history_src": src, "decorator": dec, "fold": fold, "history": list(hist), "step": step}
                    ctx.evaluations += 1
                    n += 1
                    try:
                        from bloqade.shuttle import prelude
                        got = kernels.define(src, S=X, kernel=prelude.kernel)["root"]()
                    except Exception as e:
                        ctx.fail({"kind": "compile-with-spec-refused", "kernel_kind": dec, "error": type(e).__name__, "history": True}, rep,
                                 f"@{dec}(arch_spec=...) step {step} of history {hist}: {type(e).__name__}: {str(e)[:120]}")
                        continue
                    want = (X.layout.static_traps["traps"], X.layout.special_grid["park"], X.int_constants["rows"], X.float_constants["pitch"])
                    ok = tuple(got) == want
                    ctx.hist("decorator histories", f"{dec}: " + ("own spec" if ok else "ANOTHER SPEC"))
                    if not ok:
                        ctx.fail({"kind": "behaviour-differs", "kernel_kind": dec, "history": True}, rep,
                                 f"@{dec}(arch_spec={name}, fold={fold}) compiled at step {step} of the history {hist} returns rows={got[2]}, pitch={got[3]} "
                                 f"(its own spec says rows={want[2]}, pitch={want[3]})")
    # the moving tweezer kernel, compiled against A, B, A and traced without a spec
    for step, name in enumerate(("A", "B", "A")):
        X = specs[name]
        rep = {"history_src": TWEEZER_SRC.replace("{DEC}", "(arch_spec=S)"), "decorator": "tweezer", "history": ["A", "B", "A"], "step": step, "traced": True}
        ctx.evaluations += 1
        n += 1
        try:
            plain = kernels.define(TWEEZER_SRC.replace("{DEC}", ""), S=X)["main"]
            st0, ref = tc.run_impl(plain, (1,), X)
            m = kernels.define(TWEEZER_SRC.replace("{DEC}", "(arch_spec=S)"), S=X)["main"]
            st, r = tc.run_impl(m, (1,), ArchSpec())
        except Exception as e:
            ctx.fail({"kind": "compile-with-spec-refused", "kernel_kind": "tweezer", "error": type(e).__name__, "history": True}, rep, f"{type(e).__name__}: {str(e)[:120]}")
            continue
        same = st0 == "ok" and st == "ok" and tc.abstract_path(r) == tc.abstract_path(ref)
        ctx.hist("decorator histories", "traced tweezer: " + ("own spec" if same else "ANOTHER SPEC"))
        if not same:
            ctx.fail({"kind": "behaviour-differs", "kernel_kind": "tweezer", "history": True}, rep,
                     f"@tweezer(arch_spec={name}) compiled at step {step} of the history A, B, A traces another path than the unspecialised kernel against {name}")
    ctx.count("kernels compiled in histories that alternate between two specs", n)


def replay(data):
    inp = data["input"]
    if "lookup_src" in inp:
        from bloqade.shuttle.arch import ArchSpecInterpreter
        from bloqade.shuttle.prelude import move
        S = c06_spec()
        src = inp["lookup_src"]
        try:
            a = show_value(kernels.define(src.replace("{DEC}", f"(arch_spec=S, fold={inp['fold']})"), S=S)["root"](), S)
        except Exception:
            a = "ERR"
        try:
            b = show_value(ArchSpecInterpreter(move, arch_spec=S).run(kernels.define(src.replace("{DEC}", ""), S=S)["root"], ()), S)
        except Exception:
            b = "ERR"
        known = inp["name_known_under_this_kind"]
        return a != b or (not known and a != "ERR") or (known and a == "ERR"), f"compiled: {a[:60]}; spec interpreter: {b[:60]}"
    if inp.get("forwarding_helper_history"):
        class C:
            def __init__(s): s.fails, s.evaluations = [], 0
            def fail(s, sig, rep, what): s.fails.append(what)
            def nt(s, *a): pass
        c = C()
        forwarding_helper_history(c, c06_spec())
        return bool(c.fails), (c.fails or ["every kernel sees its own spec"])[0][:200]
    if inp.get("device_call_history"):
        class C:
            def __init__(s): s.fails, s.evaluations = [], 0
            def fail(s, sig, rep, what): s.fails.append(what)
            def nt(s, *a): pass
            def obligation(s, n, ok, log=""):
                if not ok: s.fails.append(n)
        c = C()
        device_call_history(c, c06_spec())
        return bool(c.fails), (c.fails or ["every execution plays what the source means under its own spec"])[0][:200]
    if "device_call_src" in inp:
        class C:
            def __init__(s): s.fails, s.evaluations = [], 0
            def fail(s, sig, rep, what):
                if rep.get("fold") == inp["fold"]: s.fails.append(what)
            def nt(s, *a): pass
            def obligation(s, n, ok, log=""):
                if not ok: s.fails.append(n)
        c = C()
        device_call_kernels(c, c06_spec())
        return bool(c.fails), (c.fails or ["same plays on both routes"])[0][:200]
    if "filled_src" in inp:
        from bloqade.shuttle.arch import ArchSpecInterpreter
        from bloqade.shuttle.prelude import move
        S = filled_spec()
        show = lambda v: repr([(type(g).__name__, tuple(g.x_positions), tuple(g.y_positions), sorted(getattr(g, "vacancies", ()))) for g in v])
        try:
            a = show(kernels.define(inp["filled_src"].replace("{DEC}", f"(arch_spec=S, fold={inp['fold']})"), S=S)["root"](*inp["args"]))
        except Exception as e:
            a = "ERR:" + type(e).__name__
        b = show(ArchSpecInterpreter(move, arch_spec=S).run(kernels.define(inp["filled_src"].replace("{DEC}", ""), S=S)["root"], tuple(inp["args"])))
        return a != b, f"compiled: {a[:100]}; spec interpreter: {b[:100]}"
    if "closure_src" in inp:
        from bloqade.shuttle.arch import ArchSpecInterpreter
        from bloqade.shuttle.prelude import move
        S = c06_spec()
        src = inp["closure_src"]
        try:
            a = show_value(kernels.define(src.replace("{DEC}", f"(arch_spec=S, fold={inp['fold']})"), S=S)["root"](inp.get("arg", 1)), S)
        except Exception as e:
            a = "ERR:" + type(e).__name__
        b = show_value(ArchSpecInterpreter(move, arch_spec=S).run(kernels.define(src.replace("{DEC}", ""), S=S)["root"], (inp.get("arg", 1),)), S)
        return a != b, f"compiled: {a[:80]}; spec interpreter: {b[:80]}"
    if "history_src" in inp:
        S, S2 = c06_spec(), moved_spec()
        specs = {"A": S, "B": S2}
        bad = False
        if inp.get("traced"):
            from bloqade.shuttle.arch import ArchSpec
            from props import tracer_common as tc
            for name in inp["history"]:
                X = specs[name]
                plain = kernels.define(TWEEZER_SRC.replace("{DEC}", ""), S=X)["main"]
                m = kernels.define(inp["history_src"], S=X)["main"]
                a, b = tc.run_impl(m, (1,), ArchSpec()), tc.run_impl(plain, (1,), X)
                bad = bad or a[0] != "ok" or tc.abstract_path(a[1]) != tc.abstract_path(b[1])
            return bad, "history replayed"
        for name in inp["history"]:
            X = specs[name]
            try:
                from bloqade.shuttle import prelude
                got = tuple(kernels.define(inp["history_src"], S=X, kernel=prelude.kernel)["root"]())
            except Exception:
                return True, "refused"
            bad = bad or got != (X.layout.static_traps["traps"], X.layout.special_grid["park"], X.int_constants["rows"], X.float_constants["pitch"])
        return bad, "history replayed"
    if inp.get("kernel_kind") == "tweezer" and "src" in inp:
        class C:
            def __init__(s): s.fails, s.evaluations = [], 0
            def fail(s, sig, rep, what): s.fails.append(what)
            def hist(s, *a): pass
            def obligation(s, name, ok, log=""):
                if not ok: s.fails.append(name + ": " + log)
        c = C()
        S = c06_spec()
        tweezer_kernels_of(c, S, inp["src"].replace(f"(arch_spec=S, fold={inp['fold']})", "{DEC}"))
        return bool(c.fails), (c.fails or ["same path on both routes"])[0][:200]
    if "src" not in inp:
        return True, "re-run bin/check C06 (reflected table)"
    from bloqade.shuttle.arch import ArchSpecInterpreter
    from bloqade.shuttle.prelude import move
    S = c06_spec()
    fold = inp.get("fold", True)
    src = inp["src"]
    spec_src = src[:src.rindex("@move")] + f"@move(arch_spec=S, fold={fold})" + src[src.rindex("@move") + 5:]
    try:
        a = show_value(kernels.define(spec_src, S=S)["root"](), S)
    except Exception:
        a = "ERR"
    try:
        b = show_value(ArchSpecInterpreter(move, arch_spec=S).run(kernels.define(src, S=S)["root"], ()), S)
    except Exception:
        b = "ERR"
    return a != b, f"compiled: {a} / spec interpreter: {b}"
