"""C02 - reversal is exact time reversal and an involution."""
import copy

from vcommon import coqrun, events
from vcommon.coqrun import clist

from gen import kernels, tweezer_prog
from props import tracer_common as tc

COQ_IMPORT = "From BS Require Import Core.Show Core.Base Model.Tracer Model.Reverse.\n"


def reflect_inv(ctx):
    """inv() of every action class on sentinel fields: result class and field identity"""
    from bloqade.shuttle.codegen import taskgen as T
    info = tc.action_class_info()
    rows, ok = [], True
    for cls, (k, fx, fy) in info.items():
        x, y = object(), object()
        r = cls(x, y).inv()
        if type(r) not in info:
            ok = False
            continue
        rk, rfx, rfy = info[type(r)]
        same = r.x_tone_indices is x and r.y_tone_indices is y
        swapped = r.x_tone_indices is y and r.y_tone_indices is x
        rows.append(((k, fx, fy), (rk, rfx, rfy), "same" if same else "swapped" if swapped else "other"))
    a, b, c = object(), object(), object()
    w = T.WayPointsAction([a, b, c])
    wi = w.inv()
    way_ok = type(wi) is T.WayPointsAction and len(wi.way_points) == 3 and wi.way_points[0] is c and wi.way_points[2] is a \
        and w.way_points[0] is a and wi.way_points is not w.way_points
    cf = lambda c: "FSlice" if c == "S" else "FList"
    ck = lambda c: "On" if c == "on" else "Off"
    body = coqrun.HEADER + COQ_IMPORT
    body += "Definition X := SList [7%Z]. Definition Y := SSlice (Some 8%Z) None None.\n"
    body += "Definition table : list (action * action) :=\n  " + clist([
        f"(ASwitch {ck(a[0])} {cf(a[1])} {cf(a[2])} X Y, ASwitch {ck(b[0])} {cf(b[1])} {cf(b[2])} " +
        ("X Y" if w == "same" else "Y X" if w == "swapped" else "X X") + ")" for a, b, w in rows]) + ".\n"
    body += ("Lemma inv_table_ok : forallb (fun e => String.eqb (show_action (inv (fst e))) (show_action (snd e))) table = true.\n"
             "Proof. vm_compute. reflexivity. Qed.\n"
             "Lemma inv_table_complete : List.length table = 8%nat.\nProof. reflexivity. Qed.\n")
    okc, log = coqrun.compile_lemma_file(ctx.bdir, "Gen_C02", body)
    ctx.obligation("reflected inv() table: every class inverts into a known class", ok)
    ctx.obligation("Gen_C02: inv_table_ok (Model.Reverse.inv = reflected inv() on all 8 switch classes)", okc, log[-600:])
    ctx.obligation("reflected: WayPointsAction.inv reverses the waypoints into a new list", way_ok)
    for a, b, w in rows:
        want = ("off" if a[0] == "on" else "on", a[1], a[2])
        if b != want or w != "same":
            ctx.fail({"site": "inv", "class": list(a), "result": list(b), "fields": w}, {"class": list(a)},
                     f"inv() of the {a} action gives class {b} with fields {w}")
    if not way_ok:
        ctx.fail({"site": "WayPointsAction.inv"}, {}, "WayPointsAction.inv does not reverse the waypoint list")


def oracle_path(ctx, p, label, replay):
    """exact time reversal evaluated on the implementation"""
    from bloqade.shuttle.codegen import taskgen as T
    before = copy.deepcopy(p)
    r = T.reverse_path(p)
    rr = T.reverse_path(r)
    ap, ar, arr = tc.abstract_path(p), tc.abstract_path(r), tc.abstract_path(rr)
    probs = []
    if tc.abstract_path(before) != ap:
        probs.append("reverse_path modified its argument")
    if arr != ap:
        probs.append("reversing twice does not give back the original path")
    wp = [g for a in ap if a[0] == "W" for g in a[1]]
    wr = [g for a in ar if a[0] == "W" for g in a[1]]
    if wr != wp[::-1]:
        probs.append("waypoints are not visited in the opposite order")
    sp = [a for a in ap if a[0] == "S"]
    sr = [a for a in ar if a[0] == "S"]
    flip = lambda a: ("S", "off" if a[1] == "on" else "on") + tuple(a[2:])
    if sr != [flip(a) for a in sp[::-1]]:
        probs.append("switches are not flipped on<->off with the same form and tones")
    if len(ar) != len(ap) or [a[0] for a in ar] != [a[0] for a in ap][::-1]:
        probs.append("action kinds are not in the opposite order")
    for pr in probs:
        ctx.fail({"kind": "reverse", "problem": pr, "path_kinds": [a[0] for a in ap][:10]}, replay, f"{label}: {pr}")
    return ap, ar, arr


def translated_model(ctx):
    """the action classes' inv(), reverse_path and ScheduleInterpreter.reverse translated from source on every run
    (harness/gen/taskgen_translate.py, fail-closed) and proved equal to Model/Reverse.v; the reversal laws restated for the translation"""
    from gen import taskgen_translate
    from vcommon import paths
    try:
        body = taskgen_translate.generate(paths.REPO)
    except Exception as e:
        ctx.obligation("taskgen.py / schedule/concrete.py are inside the translated fragment (generated model Gen_C02_src.v)", False, f"{type(e).__name__}: {e}"[:300])
        return
    ctx.obligation("taskgen.py / schedule/concrete.py are inside the translated fragment (generated model Gen_C02_src.v)", True)
    ok, log = coqrun.compile_lemma_file(ctx.bdir, "Gen_C02_src", body)
    closed = log.count("Closed under the global context")
    ctx.obligation("generated inv / reverse_path / schedule-level reverse = the hand model (gen_inv_eq, gen_reverse_path_eq, gen_sched_reverse_eq), "
                   "closed under the global context", ok and closed >= 4, log[-600:])


def run(ctx):
    from bloqade.shuttle.codegen import taskgen as T
    reflect_inv(ctx)
    translated_model(ctx)
    ctx.rule = ("paths: (a) built directly from the 9 action classes with random fields (segments of length 0-5, all selector kinds, "
                "ill-formed orders included), (b) traced from generated kernels; each reversed once and twice; non-trivial = distinct paths "
                "with >= 2 actions; schedule level: f, reverse(f), reverse(reverse(f)) with equal arguments on the fold / stamped-spec / "
                "run-time-spec routes")
    paths = []
    for i in range(ctx.pick(600, 6000)):
        paths.append(("direct", tc.random_path(ctx.rng), {"kind": "direct", "index": i, "seed": ctx.seed}))
    for src, args, r in tc.traced_corpus(ctx, ctx.pick(120, 1500)):
        paths.append(("traced", r, {"kind": "traced", "src": src, "args": repr(args)}))
    cases = []
    for kind, p, rep in paths:
        gt = tc.GridTable()
        ap, ar, arr = oracle_path(ctx, p, kind, rep)
        ctx.evaluations += 1
        ctx.hist("path_len", min(len(ap), 12))
        ctx.hist("source", kind)
        if any(a[0] == "?" or (a[0] == "S" and (a[4] is None or a[5] is None)) for a in ap):
            continue
        if len(ap) >= 2:
            ctx.nt(tc.path_text(ap, gt))
        cases.append((tc.path_coq(ap, gt), tc.path_text(ar, gt), tc.path_text(arr, gt), rep))
    ctx.sample({"path": tc.path_text(tc.abstract_path(paths[1][1]), tc.GridTable()),
                "reversed": tc.path_text(tc.abstract_path(T.reverse_path(paths[1][1])), tc.GridTable())})
    chunks = [cases[i:i + 150] for i in range(0, len(cases), 150)]
    bodies = [(f"rev_{k}", COQ_IMPORT + "Eval vm_compute in (lines (map (fun p => (show_path (reverse_path p) ++ \"|\" ++ show_path (reverse_path (reverse_path p)))%%string) %s))." %
               clist([c[0] for c in ch])) for k, ch in enumerate(chunks)]
    mism = []
    for ch, (ok, vals, log) in zip(chunks, coqrun.eval_many(ctx.bdir, bodies)):
        if not ok or len(vals) != 1 or len(vals[0]) != len(ch):
            ctx.obligation("coqc rev file evaluates", False, log[-800:])
            continue
        for c, line in zip(ch, vals[0]):
            want = c[1] + "|" + c[2]
            if line != want:
                mism.append({"model": line[:300], "impl": want[:300], "case": c[3]})
    ctx.correspondence("Model.Reverse.reverse_path (once, twice) vs taskgen.reverse_path", len(cases), mism)
    schedule_level(ctx)
    host_and_history_cases(ctx)
    keyword_mix_cases(ctx)
    ctx.explanation = ("8 theorems for ALL paths (any segment lengths, all 8 switch classes): involution, waypoint order, switch flipping, "
                       "position-wise inversion, schedule-level involution and mutual reversal for an arbitrary tracer; inv() table reflected "
                       "from the live classes; reverse_path compared on generated and traced paths; schedule level on three Gen routes")


KSRC = [
    ("(n: int, c: bool)", """
    g = grid.from_positions([0.0, 1.0], [0.0])
    action.set_loc(g)
    action.turn_on(action.ALL, [0])
    i = 0
    for i in range(n):
        action.move(grid.shift(g, 1.0, float(i)))
    if c:
        action.turn_off([0], action.ALL)
""".replace("float(i)", "0.5"), [(2, True), (0, False), (3, True)]),
    ("(x: float, y: float)", """
    z = spec.get_static_trap(zone_id="traps")
    s = z[0:2, 1]
    action.set_loc(s)
    action.turn_on([0, 1], [0])
    action.move(grid.shift(s, x, y))
    action.move(z[1:3, 2])
    action.turn_off([0, 1], [0])
""", [(1.0, 0.5), (-2.0, 0.0)]),
    ("()", """
    action.set_loc(spec.get_special_grid(grid_id="park"))
""", [()]),
    # other tone lists: non-contiguous tone numbers, a single tone, lists built by ilist.range, and no tone at all on one or both axes
    ("(x: float, y: float)", """
    g = grid.from_positions([x, x + 2.0], [y])
    action.set_loc(g)
    action.turn_on([0, 1], action.ALL)
    action.move(grid.shift(g, 1.0, 0.5))
    action.move(grid.shift(g, 1.0, 2.5))
    action.turn_off(action.ALL, [0])
""", [(1.0, 0.5)], ("[2, 5]", "[1]")),
    ("(x: float, y: float)", """
    g = grid.from_positions([x], [y])
    action.set_loc(g)
    action.turn_on([0], [0])
    action.move(grid.shift(g, 1.0, 0.5))
    action.move(grid.shift(g, 3.0, 0.5))
    action.turn_off(action.ALL, action.ALL)
""", [(1.0, 0.5)], ("[0]", "[0]")),
    ("(x: float, y: float)", """
    g = grid.from_positions([x, x + 2.0], [y])
    action.set_loc(g)
    action.turn_on(action.ALL, action.ALL)
    action.move(grid.shift(g, 1.0, 0.5))
    action.move(grid.shift(g, 0.0, 1.5))
    action.turn_off([1], [0])
""", [(0.0, 0.0)], ("ilist.range(2)", "ilist.range(1)")),
    ("(x: float, y: float)", """
    g = grid.from_positions([], [y])
    action.set_loc(g)
    action.turn_on(action.ALL, [0])
    action.move(grid.shift(g, 1.0, 0.5))
    action.move(grid.shift(g, 1.0, 2.5))
    action.turn_off(action.ALL, [0])
""", [(1.0, 0.5)], ("[]", "[0]")),
    ("(x: float, y: float)", """
    g = grid.from_positions([x, x + 1.0], [])
    action.set_loc(g)
    action.turn_on([0, 1], action.ALL)
    action.move(grid.shift(g, 1.0, 0.5))
    action.move(grid.shift(g, 2.0, 0.5))
    action.turn_off([0], action.ALL)
""", [(1.0, 0.5)], ("[0, 1]", "ilist.range(0)")),
    ("(x: float, y: float)", """
    g = grid.from_positions([], [])
    action.set_loc(g)
    action.turn_on(action.ALL, action.ALL)
    action.move(grid.shift(g, 1.0, 0.5))
    action.move(grid.shift(g, 1.0, 2.5))
    action.turn_off(action.ALL, action.ALL)
""", [(1.0, 0.5)], ("[]", "[]")),
]


def schedule_level(ctx):
    S = tweezer_prog.harness_spec()
    n = 0
    for entry in KSRC:
        sig, body, argsets = entry[:3]
        XT, YT = entry[3] if len(entry) > 3 else ("[0, 1]", "[0]")
        want_tones = (list(eval(XT.replace("ilist.", ""))), list(eval(YT.replace("ilist.", ""))))
        ns = kernels.define(f"@tweezer\ndef k{sig}:{body}")
        names = [p.split(":")[0].strip() for p in sig.strip("()").split(",") if p.strip()]
        for args in argsets:
            pos = ", ".join(repr(a) for a in args)
            kw = ", ".join(f"{nm}={a!r}" for nm, a in reversed(list(zip(names, args))))
            msrc = ("@move{dec}\ndef main():\n    f = schedule.device_fn(k, XTONES, YTONES)\n    r = schedule.reverse(f)\n"
                    "    rr = schedule.reverse(r)\n    rrr = schedule.reverse(rr)\n"
                    f"    f({pos})\n    r({kw})\n    rr({pos})\n    rrr({kw})\n    schedule.reverse(schedule.device_fn(k, XTONES, YTONES))({pos})\n")
            # the same calls with the operands passed as kernel parameters (nothing can be folded: evaluated at run time)
            kwv = ", ".join(f"{nm}={nm}" for nm in reversed(names))
            psrc = ("@move{dec}\ndef main" + sig + ":\n    f = schedule.device_fn(k, XTONES, YTONES)\n    r = schedule.reverse(f)\n"
                    "    rr = schedule.reverse(r)\n    rrr = schedule.reverse(rr)\n"
                    f"    f({', '.join(names)})\n    r({kwv})\n    rr({', '.join(names)})\n    rrr({kwv})\n    schedule.reverse(schedule.device_fn(k, XTONES, YTONES))({', '.join(names)})\n")
            msrc = msrc.replace("XTONES", XT).replace("YTONES", YT)
            psrc = psrc.replace("XTONES", XT).replace("YTONES", YT)
            routes = [("fold(compile-time spec)", "(arch_spec=S)", False, False), ("stamped spec, plain interpreter", "(arch_spec=S, fold=False)", True, False),
                      ("run-time spec interpreter", "", False, False), ("run-time spec, fold=False", "(fold=False)", False, False)]
            if names:
                routes += [("stamped spec, plain interpreter, run-time operands", "(arch_spec=S)", True, True),
                           ("run-time spec interpreter, run-time operands", "", False, True)]
            # the calls sit in a subroutine compiled earlier WITHOUT a spec (its reversals are folded into constants); it is then reached
            # from a kernel compiled with the spec (the injection pass copies and re-targets it), with and without the trailing fold
            wrap = lambda src, d: (src.format(dec="").replace("def main", "def sub", 1) + "\n@move" + d + "\ndef main" + (sig if src is psrc else "()") + ":\n    sub(" +
                                   (", ".join(names) if src is psrc else "") + ")\n")
            routes += [("subroutine compiled without a spec, reached from a kernel compiled with arch_spec", "(arch_spec=S)", True, "wrap"),
                       ("subroutine compiled without a spec, reached from a kernel compiled with arch_spec, fold=False", "(arch_spec=S, fold=False)", True, "wrap")]
            texts = {}
            for rname, dec, plain, byparam in routes:
                try:
                    if byparam == "wrap":
                        byparam = bool(names)
                        m = kernels.define(wrap(psrc if byparam else msrc, dec), k=ns["k"], S=S)["main"]
                    else:
                        m = kernels.define((psrc if byparam else msrc).format(dec=dec), k=ns["k"], S=S)["main"]
                    st, evs, extra = events.run_events(m, tuple(args) if byparam else (), S, plain=plain)
                except Exception as e:
                    st, evs, extra = "err", [], f"definition failed: {type(e).__name__}: {e}"
                n += 1
                ctx.evaluations += 1
                rep = {"kind": "schedule", "kernel": f"def k{sig}:{body}", "move": msrc.format(dec=dec), "route": rname}
                if st != "ok" or len(evs) != 5 or any(e[0] != "play" for e in evs):
                    ctx.fail({"kind": "schedule-level", "route": rname, "problem": "did not play five paths", "detail": str(extra)[:120]},
                             rep, f"{rname}: f/reverse(f)/reverse(reverse(f)) did not execute: {extra}")
                    continue
                from bloqade.shuttle.codegen import taskgen as T
                ps = [tc.abstract_path(e[1].path) for e in evs]
                rev = lambda p: tc.abstract_path(T.reverse_path(_concrete(p)))
                tones = [(list(e[1].x_tones), list(e[1].y_tones)) for e in evs]
                direct = tc.abstract_path(tc.run_impl(ns["k"], args, S)[1])
                probs = []
                if ps[0] != direct:
                    probs.append("f(args) is not the traced path of the kernel")
                if ps[1] != _rev_abs(ps[0]):
                    probs.append("reverse(f)(args) is not the reversal of f(args)")
                if ps[2] != ps[0]:
                    probs.append("reverse(reverse(f)) does not behave as f")
                if ps[3] != ps[1] or ps[4] != ps[1]:
                    probs.append("reverse^3(f) / inline reverse differ from reverse(f)")
                if any(t != want_tones for t in tones):
                    probs.append("tone lists changed")
                for pr in probs:
                    ctx.fail({"kind": "schedule-level", "route": rname, "problem": pr}, rep, f"{rname}: {pr}")
                gt = tc.GridTable()
                texts[rname] = [tc.path_text(p, gt) for p in ps]
                ctx.nt(("sched", sig, args, rname, XT, YT))
                ctx.hist("schedule-level tone lists", f"x={XT} y={YT}")
            if len(set(map(tuple, texts.values()))) > 1:
                ctx.fail({"kind": "schedule-level", "problem": "routes disagree"}, {"kernel": body, "args": repr(args)},
                         "the Gen routes yield different paths for the same calls")
    ctx.count("schedule_level_runs", n)


def host_and_history_cases(ctx):
    """device functions BUILT ON THE HOST and used as globals of a kernel (forward and reversed objects, reversed again inside the kernel),
    and ONE reverse statement evaluated several times with different operands (a subroutine reversing its parameter, a loop that keeps
    reversing): every play is the traced path or its exact reversal, as the source says"""
    from kirin.dialects import ilist
    from bloqade.shuttle.dialects.schedule import DeviceFunction, ReverseDeviceFunction
    S = tweezer_prog.harness_spec()
    k = kernels.define("@tweezer\ndef k(x: float, y: float):\n    g = grid.from_positions([x, x + 2.0], [y])\n    action.set_loc(g)\n    action.turn_on([0, 1], action.ALL)\n"
                       "    action.move(grid.shift(g, 1.0, 0.5))\n    action.move(grid.shift(g, 1.0, 2.5))\n")["k"]
    FWD = DeviceFunction(move_fn=k, x_tones=ilist.IList([0, 1]), y_tones=ilist.IList([0]))
    BWD = ReverseDeviceFunction(FWD)
    fwd = tc.abstract_path(tc.run_impl(k, (1.0, 0.5), S)[1])
    rev = _rev_abs(fwd)
    progs = {
        "host-built device functions": ("def main(x: float, y: float):\n    FWD(x, y)\n    BWD(x, y)\n    schedule.reverse(BWD)(x, y)\n    schedule.reverse(schedule.reverse(FWD))(x, y)\n"
                                        "    schedule.reverse(FWD)(x, y)\n    schedule.reverse(schedule.reverse(BWD))(y=y, x=x)\n", "frffrr"),
        "one reverse statement, several operands": ("def flip(d, x: float, y: float):\n    schedule.reverse(d)(x, y)\n\n@move{DEC}\ndef main(x: float, y: float):\n"
                                                    "    f = schedule.device_fn(k, [0, 1], [0])\n    r = schedule.reverse(f)\n    flip(f, x, y)\n    flip(r, x, y)\n    flip(f, x, y)\n"
                                                    "    flip(BWD, x, y)\n", "rfrf"),
        "forward and reversed calls with the same operands in nested branches": (
            "def main(x: float, y: float):\n    f = schedule.device_fn(k, [0, 1], [0])\n    r = schedule.reverse(f)\n    f(x, y)\n    if x > 0.0:\n        r(x, y)\n"
            "        if y > 0.0:\n            schedule.reverse(r)(x, y)\n    else:\n        f(x, y)\n    r(x, y)\n    if y > 0.0:\n        f(x, y)\n        r(y=y, x=x)\n", "frfrfr"),
        "a loop that keeps reversing": ("def main(x: float, y: float):\n    g = schedule.device_fn(k, [0, 1], [0])\n    i = 0\n    for i in range(5):\n        g(x, y)\n        g = schedule.reverse(g)\n", "frfrf"),
    }
    n = 0
    for label, (body, want) in progs.items():
        for dec, plain in (("", False), ("(fold=False)", False), ("(arch_spec=S)", True), ("(arch_spec=S, fold=False)", True)):
            src = ("@move" + ("" if "def flip" in body else dec) + "\n" + body).replace("{DEC}", dec)
            rep = {"kind": "schedule", "kernel": "host / history", "move": src, "route": dec or "default", "case": label}
            ctx.evaluations += 1
            n += 1
            try:
                m = kernels.define(src, S=S, k=k, FWD=FWD, BWD=BWD)["main"]
                st, evs, extra = events.run_events(m, (1.0, 0.5), S, plain=plain)
            except Exception as e:
                st, evs, extra = "err", [], f"{type(e).__name__}: {e}"
            got = "".join("f" if tc.abstract_path(e[1].path) == fwd else "r" if tc.abstract_path(e[1].path) == rev else "?" for e in evs if e[0] == "play") if st == "ok" else "ERR " + str(extra)[:80]
            if got != want:
                ctx.fail({"kind": "schedule-level", "route": dec or "default", "problem": "forward / reversed plays differ from the source", "case": label}, rep,
                         f"@move{dec}, {label}: the plays are {got} (f = the traced path, r = its reversal) but the source says {want}")
            else:
                ctx.nt(("host-history", label, dec))
    ctx.count("host-built device functions / one reverse statement with several operands x 4 routes", n)


def keyword_mix_cases(ctx):
    """f and reverse(f) called with the SAME values written in different forms - all positional, one positional and two keywords in either
    order, all keywords - and a forward / reversed device function chosen by a helper kernel with a run-time flag: every play is the
    natively traced path of those values, or its exact reversal"""
    S = tweezer_prog.harness_spec()
    ksrc = ("@tweezer\ndef k3(x: float, dx: float, dy: float):\n    g = grid.from_positions([x, x + 2.0], [0.0])\n    action.set_loc(g)\n    action.turn_on([0, 1], action.ALL)\n"
            "    action.move(grid.shift(g, dx, 0.0))\n    action.move(grid.shift(g, dx, dy))\n    action.turn_off([1], action.ALL)\n")
    # (second kernel of the same shape whose middle leg is done by a HELPER kernel that records a move and returns the grid it reached)
    hsrc = ("@tweezer\ndef leg(g, dx: float):\n    h = grid.shift(g, dx, 0.0)\n    action.move(h)\n    return h\n\n"
            "@tweezer\ndef k3(x: float, dx: float, dy: float):\n    g = grid.from_positions([x, x + 2.0], [0.0])\n    action.set_loc(g)\n    action.turn_on([0, 1], action.ALL)\n"
            "    h = leg(g, dx)\n    action.move(grid.shift(h, 0.0, dy))\n    action.turn_off([1], action.ALL)\n")
    k3h = kernels.define(hsrc)["k3"]
    k3 = kernels.define(ksrc)["k3"]
    gt = tc.PosTable()
    fwd = tc.ref_trace(tc.run_native(ksrc, "k3", (1.0, 0.5, 3.0), S)[1])
    f_txt, r_txt = tc.path_text(fwd, gt), tc.path_text(_rev_abs(fwd), gt)
    chooser = ("@move\ndef choose(task: schedule.DeviceFunction[[float, float, float]], back: bool):\n    chosen = task\n    if back:\n        chosen = schedule.reverse(task)\n    return chosen\n\n")
    progs = {
        "one positional argument and two keywords": ("def main(x: float, dx: float, dy: float, back: bool):\n    f = schedule.device_fn(k3, [0, 1], [0])\n    r = schedule.reverse(f)\n    f(x, dx, dy)\n"
                                                     "    r(x, dx=dx, dy=dy)\n    r(x, dy=dy, dx=dx)\n    f(x, dy=dy, dx=dx)\n    r(dy=dy, x=x, dx=dx)\n    f(x, dx, dy=dy)\n", "frrfrf"),
    }
    progs["a helper kernel records a leg and returns the grid it reached"] = (
        "def main(x: float, dx: float, dy: float, back: bool):\n    f = schedule.device_fn(k3h, [0, 1], [0])\n    f(x, dx, dy)\n    schedule.reverse(f)(x, dx, dy)\n    f(x, dx, dy)\n"
        "    schedule.reverse(f)(x, dy=dy, dx=dx)\n", "frfr")
    try:
        cns = kernels.define(chooser)
        progs["forward or reversed, chosen by a helper kernel"] = (
            "def main(x: float, dx: float, dy: float, back: bool):\n    f = schedule.device_fn(k3, [0, 1], [0])\n    choose(f, back)(x, dx, dy)\n    choose(f, False)(x, dx, dy)\n"
            "    choose(f, True)(x, dx, dy)\n    choose(schedule.reverse(f), back)(x, dx, dy)\n", "rfrf")
    except Exception as e:
        cns = {}
        ctx.hist("keyword-mix", f"the chooser helper cannot be defined: {type(e).__name__}")
    n = 0
    for label, (body, want) in progs.items():
        for dec, plain in (("", False), ("(fold=False)", False), ("(arch_spec=S)", True), ("(arch_spec=S, fold=False)", True)):
            src = "@move" + dec + "\n" + body
            rep = {"kind": "schedule", "kernel": "keyword mix", "move": src, "route": dec or "default", "case": label, "keyword_mix": True}
            ctx.evaluations += 1
            n += 1
            try:
                m = kernels.define(src, S=S, k3=k3, k3h=k3h, **cns)["main"]
                st, evs, extra = events.run_events(m, (1.0, 0.5, 3.0, True), S, plain=plain)
            except Exception as e:
                st, evs, extra = "err", [], f"{type(e).__name__}: {e}"
            if st == "ok":
                g2 = tc.PosTable()
                got = "".join("f" if tc.path_text(tc.abstract_path(e[1].path), g2) == f_txt else "r" if tc.path_text(tc.abstract_path(e[1].path), g2) == r_txt else "?" for e in evs if e[0] == "play")
            else:
                got = "ERR " + str(extra)[:80]
            if got != want:
                ctx.fail({"kind": "schedule-level", "route": dec or "default", "problem": "forward / reversed plays differ from the source", "case": label}, rep,
                         f"@move{dec}, {label}: the plays are {got} (f = the traced path of these values, r = its reversal, ? = neither) but the source says {want}")
            else:
                ctx.nt(("keyword-mix", label, dec))
    ctx.count("f / reverse(f) with one value set written in different call forms, and chosen by a helper kernel x 4 routes", n)


def _rev_abs(ap):
    out = []
    for a in reversed(ap):
        if a[0] == "W":
            out.append(("W", list(reversed(a[1]))))
        else:
            out.append(("S", "off" if a[1] == "on" else "on") + tuple(a[2:]))
    return out


def _concrete(p):
    return p


def replay(data):
    from bloqade.shuttle.codegen import taskgen as T
    import random
    inp = data["input"]

    class C:
        pass
    c = C()
    c.fails = []
    c.fail = lambda sig, rep, what: c.fails.append(what)
    if inp.get("kind") == "traced":
        from kirin.dialects import ilist
        S = tweezer_prog.harness_spec()
        m = kernels.define(inp["src"])["main"]
        args = eval(inp["args"], {"slice": slice, "IList": ilist.IList})
        st, r = tc.run_impl(m, args, S)
        oracle_path(c, r, "traced", inp)
    elif inp.get("kind") == "direct":
        from vcommon.driver import Ctx
        rng = random.Random(inp["seed"] * 1000003 + 2)
        p = None
        for i in range(inp["index"] + 1):
            p = tc.random_path(rng)
        oracle_path(c, p, "direct", inp)
    else:
        return True, "schedule-level replay: re-run bin/check C02 (inputs are fixed kernels): " + str(data.get("what"))
    return bool(c.fails), "; ".join(c.fails) or "reversal laws hold on this path"
