"""C08 - library moves are physically executable and end where documented."""
import itertools
import warnings
from fractions import Fraction

from vcommon import coqrun, events
from vcommon.coqrun import cQ, clist, cnat, cstr, cZ

from props import aodsim, tracer_common as tc
from props.aodsim import F


def I(l):
    from kirin.dialects import ilist
    return ilist.IList(list(l))


def sorted_strict(l):
    return all(a < b for a, b in zip(l, l[1:]))


TWO_COL_LAYOUTS = []    # (nx, ny, spacing, gate_spacing, zone x coordinates, zone y coordinates) of every two-column layout used
LIB_CASES = []          # calls of the modelled library kernels: (kind, Coq term of the model call, Coq term of the implementation's verdict, label)
COQ_CASES = []          # (traps, occupancy, paths) as Coq text, expected show_sim text, label


def q(v):
    return cQ(v)


def paths_coq(evs):
    out = []
    for e in evs:
        if e[0] != "play":
            continue
        pv = e[1]
        for p in (list(pv.members) if type(pv).__name__ == "Group" else [pv]):
            acts = []
            for a in tc.abstract_path(p.path):
                if a[0] == "W":
                    acts.append("SWay " + clist([f"({clist([q(x) for x in g.x_positions])}, {clist([q(y) for y in g.y_positions])})" for g in a[1]]))
                else:
                    acts.append(f"SSwitch {'On' if a[1] == 'on' else 'Off'} {tc.sel_coq(a[4])} {tc.sel_coq(a[5])}")
            out.append(f"(mkspath {cnat(len(p.x_tones))} {cnat(len(p.y_tones))} {clist(acts)})")
    return clist(out)


def sim_text(res, sim):
    if res[0] == "reject":
        return "reject:" + res[1]
    fq = lambda v: f"{Fraction(v).numerator}/{Fraction(v).denominator}"
    occ = sorted(((a, p) for p, a in sim.occ.items()), key=lambda t: t[0])
    return f"ok held={len(sim.held)} occ=[" + ",".join(f"{a}@{fq(p[0])},{fq(p[1])}" for a, p in occ) + "]"


def simulate(S, evs, extra_occupied=(), label="", round_trip=None, doc=None):
    """choose the compatible occupancy (sites where spots light up are occupied), run the simulator"""
    sites = aodsim.layout_sites(S)
    picks = list(dict.fromkeys(aodsim.dry_run_sites(S, evs)))
    occ = {p: i + 1 for i, p in enumerate(picks)}
    for k, p in enumerate(extra_occupied):
        if p in sites and p not in occ:
            occ[p] = 1000 + k
    before = dict(occ)
    sim = aodsim.Sim(sites, occ)
    res = ("ok",)
    try:
        aodsim.run_events_on(sim, evs)
    except aodsim.Reject as r:
        res = ("reject", r.kind, str(r))
    if len(sites) <= 60 or len(COQ_CASES) % 7 == 0 or round_trip:
        st0 = (f"(mkast {clist([f'({q(x)}, {q(y)})' for x, y in sorted(sites)])} "
               f"{clist([f'(({q(p[0])}, {q(p[1])}), {cnat(a)})' for p, a in before.items()])} [] [] [])")
        if doc is not None:
            zx, zy, sx, sy, dx, dy = doc
            nl = lambda l: clist([cnat(int(i)) for i in l])
            dterm = f"(Some ({clist([q(v) for v in zx])}, {clist([q(v) for v in zy])}, {nl(sx)}, {nl(sy)}, {nl(dx)}, {nl(dy)}))"
        else:
            dterm = "None"
        COQ_CASES.append((f"({st0}, {paths_coq(evs)}, {dterm})", sim_text(res, sim), label, round_trip, doc is not None))
    if res[0] == "reject":
        return res, before, sim
    if sorted(list(sim.occ.values()) + list(sim.held.values())) != sorted(before.values()):
        return ("reject", "EAtoms", "atoms lost or duplicated"), before, sim
    return ("ok",), before, sim


def judge(ctx, move, label, S, method, args, valid, expected_end, sig_extra=None, extra_occupied=(), post=None, doc=None, pre=None):
    """run one library call; decide rejected / executable; compare with the documentation"""
    st, evs, extra = events.run_events(method, args, S)
    ctx.evaluations += 1
    if move in ("single_col_zone.cz_move", "stdlib.moves.default_move_cz", "two_col_zone.rearrange") and all(int(i) >= 0 for l in args for i in l):
        # the Gallina model of this kernel (Model/LibMoves.v) is asked the same question
        zone = S.layout.static_traps["traps"]
        nl = lambda l: clist([cnat(int(i)) for i in l])
        zq = f"{clist([q(v) for v in zone.x_positions])} {clist([q(v) for v in zone.y_positions])}"
        call = (f"cz_model {zq} {' '.join(nl(l) for l in args)} (2#1) (2#1)" if move != "two_col_zone.rearrange"
                else f"rearrange_model {zq} {' '.join(nl(l) for l in args)}")
        strict = f"rearrange_strict {zq} {' '.join(nl(l) for l in args)}" if move == "two_col_zone.rearrange" else "true"
        park = (f"(parking_ok {zq}, rearrange_preconditionsb {zq} {' '.join(nl(l) for l in args)})" if move == "two_col_zone.rearrange" else "(true, true)")
        LIB_CASES.append((move, call, f"(Some {paths_coq(evs)})" if st == "ok" else "None", f"{move} {label}", strict, st == "ok", park, valid if pre is None else pre))
    if move == "waypoints.move_by_waypoints" and label.split(" ")[0] not in ("two", "three"):
        wl = clist([f"({clist([q(x) for x in g.x_positions])}, {clist([q(y) for y in g.y_positions])})" for g in args[0]])
        LIB_CASES.append((move, f"waypoints_model {wl} {'true' if args[1] else 'false'} {'true' if args[2] else 'false'}",
                          f"(Some {paths_coq(evs)})" if st == "ok" else "None", f"{move} {label}", "true", st == "ok", "(true, true)", valid))
    rep = {"move": move, "call": label}
    sig = {"move": move}
    sig.update(sig_extra or {})
    if st != "ok":
        ctx.hist(move, "rejected" + (" (valid input)" if valid else ""))
        if valid:
            ctx.fail(dict(sig, kind="valid-input-rejected", error=extra.split(":")[0]), rep, f"{move} {label}: documented preconditions hold but the call is rejected: {extra[:140]}")
        return None
    shape = None
    if valid and move in ("single_col_zone.cz_move", "stdlib.moves.default_move_cz"):
        shape = "round-trip"
    elif valid and move == "two_col_zone.rearrange" or (valid and move == "waypoints.move_by_waypoints" and "pick=True drop=True" in label and not label.startswith("0 waypoints")):
        shape = "transport"
    elif valid and move == "gemini.logical.vertical_shift":
        shape = "selected-transport"
    elif valid and move == "waypoints.move_by_waypoints" and label.split(" ")[0] in ("two", "three"):
        shape = "legs"
    res, before, sim = simulate(S, evs, extra_occupied, label=f"{move} {label}", round_trip=shape, doc=doc if valid else None)
    if res[0] == "reject":
        ctx.hist(move, "NOT EXECUTABLE " + res[1])
        ctx.fail(dict(sig, kind="not-executable", why=res[1], valid=valid), rep, f"{move} {label}: accepted but not physically executable: {res[2]}")
        return None
    ctx.hist(move, "executable" + ("" if valid else " (invalid input accepted)"))
    if valid and expected_end is not None:
        want = expected_end(before)
        got = {a: p for p, a in sim.occ.items()}
        if want is not None and sim.held:
            ctx.fail(dict(sig, kind="wrong-destination", detail="atoms still held"), rep, f"{move} {label}: {len(sim.held)} atoms are still held when the move ends")
            return None
        if want is not None and got != want:
            moved = [(a, before_p, got.get(a)) for a, before_p in ((v, k) for k, v in before.items()) if got.get(a) != want.get(a)][:3]
            ctx.fail(dict(sig, kind="wrong-destination"), rep, f"{move} {label}: atoms do not end where documented, e.g. {[(a, tuple(map(float, p or (0, 0))), tuple(map(float, q or (0, 0)))) for a, p, q in moved]}")
            return None
    if valid and post is not None:
        why = post(sim, before)
        if why:
            ctx.fail(dict(sig, kind="wrong-destination", detail="flags"), rep, f"{move} {label}: {why}")
            return None
    if valid:
        ctx.nt((move, label))
    return evs


# ---------------- the five library moves ----------------
def index_lists(n, maxlen, rng, quick):
    """valid (sorted, in range) and invalid (unsorted, duplicated, out of range, empty) index lists over range(n)"""
    valid = [list(c) for k in range(1, maxlen + 1) for c in itertools.combinations(range(n), k)]
    invalid = [[], [1, 0], [0, 0], [n], [0, n + 2], [-1], [n - 1, n], [n, n + 1]]
    if quick and len(valid) > 6:
        valid = rng.sample(valid, 6)
    return valid, [l for l in invalid if len(l) <= maxlen or l == []]


def cz_cases(ctx):
    from bloqade.shuttle.stdlib.layouts import single_col_zone
    from bloqade.shuttle.stdlib import moves as old_moves
    sizes = ctx.pick([(3, 2, 10.0), (4, 3, 4.0)], [(nx, ny, s) for nx in (1, 2, 3, 4) for ny in (1, 2, 3, 4) for s in (4.0, 10.0)])
    for nx, ny, s in sizes:
        S = single_col_zone.get_spec(nx, ny, s)
        vx, ix = index_lists(nx, 2, ctx.rng, ctx.quick)
        vy, iy = index_lists(ny, 2, ctx.rng, ctx.quick)
        combos = []
        for cx, qx in itertools.product(vx, vx):
            for cy, qy in itertools.product(vy, vy):
                combos.append((cx, cy, qx, qy))
        if len(combos) > ctx.pick(25, 400):
            combos = ctx.rng.sample(combos, ctx.pick(25, 400))
        for bad in ix:
            combos.append((bad, vy[0], vx[0], vy[0]))
            combos.append((vx[0], vy[0], bad, vy[0]))
        for bad in iy:
            combos.append((vx[0], bad, vx[0], vy[0]))
        # an invalid list next to valid lists of the SAME length: only the rule that list breaks can reject the call
        allx = [list(c) for k in (1, 2) for c in itertools.combinations(range(nx), k)]
        ally = [list(c) for k in (1, 2) for c in itertools.combinations(range(ny), k)]
        for bad in ix + [[nx - 1, nx - 1]]:
            for mate in [l for l in allx if len(l) == len(bad)][:2]:
                combos.append((bad, vy[0], mate, vy[0]))
                combos.append((mate, vy[0], bad, vy[0]))
        for bad in iy + [[ny - 1, ny - 1]]:
            for mate in [l for l in ally if len(l) == len(bad)][:2]:
                combos.append((vx[0], bad, vx[0], mate))
                combos.append((vx[0], mate, vx[0], bad))
        combos += [(vx[0], [], vx[0], []), ([], vy[0], [], vy[0]), ([], [], [], []), ([], [1, 0], [], vy[0]), (vx[0], vy[0], [], vy[0])]
        for cx, cy, qx, qy in combos:
            valid = (all(sorted_strict(l) and len(l) >= 1 for l in (cx, cy, qx, qy)) and len(cx) == len(qx) and len(cy) == len(qy)
                     and all(0 <= i < nx for i in cx + qx) and all(0 <= j < ny for j in cy + qy))
            # the control atoms visit the neighbourhood of the target sites and come back
            for name, meth in (("single_col_zone.cz_move", single_col_zone.cz_move), ("stdlib.moves.default_move_cz", old_moves.default_move_cz)):
                judge(ctx, name, f"layout {nx}x{ny}@{s} ctrl=({cx},{cy}) qarg=({qx},{qy})", S, meth, (I(cx), I(cy), I(qx), I(qy)), valid,
                      lambda before: {a: p for p, a in before.items()})
    # the deprecated move on the layout ITS OWN (deprecated) builder provides (tall, wide and square requests): valid calls anywhere on
    # the requested lattice are accepted and bring the control atoms back
    from bloqade.shuttle.stdlib import spec as old_spec
    for nx, ny, s in ctx.pick([(2, 4, 10.0), (1, 3, 4.0), (3, 2, 10.0)], [(nx, ny, s) for nx in (1, 2, 3, 4) for ny in (1, 2, 3, 4) for s in (4.0, 10.0)]):
        try:
            SO = old_spec.single_zone_spec(nx, ny, s)
        except Exception as e:
            ctx.evaluations += 1
            ctx.fail({"move": "stdlib.moves.default_move_cz", "kind": "valid-input-rejected", "error": type(e).__name__, "layout": "stdlib.spec.single_zone_spec"},
                     {"move": "stdlib.moves.default_move_cz", "call": f"single_zone_spec({nx}, {ny}, {s})"}, f"stdlib.spec.single_zone_spec({nx}, {ny}, {s}) raises {type(e).__name__}")
            continue
        rows = [[ny - 1]] + ([[0, ny - 1]] if ny > 1 else []) + ([[ny - 2, ny - 1]] if ny > 2 else [])
        cols = [([0], [nx - 1])] if nx > 1 else []
        cols += [([0, 1], [1, 2])] if nx > 2 else []
        for (cx, qx), cy in itertools.product(cols, rows):
            judge(ctx, "stdlib.moves.default_move_cz", f"layout stdlib.spec.single_zone_spec({nx}, {ny}, {s}) ctrl=({cx},{cy}) qarg=({qx},{cy})", SO, old_moves.default_move_cz,
                  (I(cx), I(cy), I(qx), I(cy)), True, lambda before: {a: p for p, a in before.items()})

def rearrange_cases(ctx):
    from bloqade.shuttle.stdlib.layouts import two_col_zone
    sizes = ctx.pick([(3, 3, 10.0, 2.0), (2, 2, 1.0, 2.0), (2, 2, 6.0, 2.0)],
                     [(nx, ny, s, g) for nx in (1, 2, 3) for ny in (1, 2, 3) for s, g in ((10.0, 2.0), (8.0, 2.5), (1.0, 2.0), (4.0, 0.5), (6.0, 2.0), (6.5, 0.5))])
    for nx, ny, s, g in sizes:
        S = two_col_zone.get_spec(nx, ny, s, g)
        zone = S.layout.static_traps["traps"]
        TWO_COL_LAYOUTS.append((nx, ny, s, g, list(zone.x_positions), list(zone.y_positions)))
        vx, ix = index_lists(2 * nx, 2, ctx.rng, ctx.quick)
        vy, iy = index_lists(ny, 2, ctx.rng, ctx.quick)
        combos = [(sx, sy, dx, dy) for sx, dx in itertools.product(vx, vx) for sy, dy in itertools.product(vy, vy)]
        if len(combos) > ctx.pick(30, 300):
            combos = ctx.rng.sample(combos, ctx.pick(30, 300))
        for bad in ix:
            combos.append((bad, vy[0], vx[0], vy[0]))
        for bad in iy:
            combos.append((vx[0], vy[0], vx[0], bad))
        allx = [list(c) for k in (1, 2) for c in itertools.combinations(range(2 * nx), k)]
        ally = [list(c) for k in (1, 2) for c in itertools.combinations(range(ny), k)]
        for bad in ix + [[2 * nx - 1, 2 * nx - 1]]:
            for mate in [l for l in allx if len(l) == len(bad)][:2]:
                combos.append((bad, vy[0], mate, vy[0]))
                combos.append((mate, vy[0], bad, vy[0]))
        for bad in iy + [[ny - 1, ny - 1]]:
            for mate in [l for l in ally if len(l) == len(bad)][:2]:
                combos.append((vx[0], bad, vx[0], mate))
                combos.append((vx[0], mate, vx[0], bad))
        combos += [(vx[0], [], vx[0], []), ([], vy[0], [], vy[0]), ([], [], [], []), ([], [1, 0], [], vy[0]), (vx[0], vy[0], [], vy[0])]
        if nx >= 2:
            # the right column of one pair and the left column of the next park between the pairs
            combos += [([1, 2], [0], [0, 3], [0]), ([1, 2], list(range(ny)), [1, 2], list(range(ny)))]
        if ny >= 3:
            # neighbouring rows that move towards each other park between the rows
            combos += [([0], [0, 1], [1], [1, 2]), ([0], [0, 2], [1], [1, 2]), ([0], [0, 1, 2], [0], [0, 1, 2])]
        for sx, sy, dx, dy in combos:
            valid = (all(sorted_strict(l) and len(l) >= 1 for l in (sx, sy, dx, dy)) and len(sx) == len(dx) and len(sy) == len(dy)
                     and all(0 <= i < 2 * nx for i in sx + dx) and all(0 <= j < ny for j in sy + dy))
            src = [(F(zone.x_positions[i]), F(zone.y_positions[j])) for i in sx for j in sy] if valid else []
            dst = [(F(zone.x_positions[i]), F(zone.y_positions[j])) for i in dx for j in dy] if valid else []
            # destination sites must be free unless they are vacated by the same move
            compatible = valid and not (set(dst) & set(src)) if valid else False

            def end(before, src=src, dst=dst):
                m = dict(zip(src, dst))
                return {a: m.get(p, p) for p, a in before.items()}
            judge(ctx, "two_col_zone.rearrange", f"layout {nx}x{ny}@{s}/{g} src=({sx},{sy}) dst=({dx},{dy})", S, two_col_zone.rearrange,
                  (I(sx), I(sy), I(dx), I(dy)), valid and (compatible or set(dst) == set(src)), end if compatible else None,
                  sig_extra={"spacing_ge_6": s >= 6.0, "spacing_eq_6": s == 6.0}, doc=(zone.x_positions, zone.y_positions, sx, sy, dx, dy) if compatible else None, pre=valid)


def same_arguments_on_two_layouts(ctx):
    """the very same argument objects handed to a library move on two different layouts in one process, and on the first
    layout again: each call must be executable on ITS layout (nothing may be remembered from the other one)"""
    from bloqade.shuttle.stdlib.layouts import single_col_zone, two_col_zone
    args = (I([0, 2]), I([0]), I([1, 3]), I([1]))
    for (a, b) in (((3, 2, 10.0, 2.0), (3, 2, 14.0, 2.0)), ((3, 2, 8.0, 2.5), (2, 2, 10.0, 2.0))):
        for params in (a, b, a):
            S = two_col_zone.get_spec(*params)
            zone = S.layout.static_traps["traps"]
            src = [(F(zone.x_positions[i]), F(zone.y_positions[j])) for i in (0, 2) for j in (0,)]
            dst = [(F(zone.x_positions[i]), F(zone.y_positions[j])) for i in (1, 3) for j in (1,)]

            def end(before, src=src, dst=dst):
                m = dict(zip(src, dst))
                return {at: m.get(p, p) for p, at in before.items()}
            judge(ctx, "two_col_zone.rearrange", f"layout {params} src=([0, 2],[0]) dst=([1, 3],[1]) [same argument objects as on another layout]",
                  S, two_col_zone.rearrange, args, True, end, sig_extra={"spacing_ge_6": params[2] >= 6.0})
    cargs = (I([0]), I([0]), I([1]), I([1]))
    for params in ((3, 2, 10.0), (3, 2, 4.0), (3, 2, 10.0)):
        S = single_col_zone.get_spec(*params)
        judge(ctx, "single_col_zone.cz_move", f"layout {params} ctrl=([0],[0]) qarg=([1],[1]) [same argument objects as on another layout]",
              S, single_col_zone.cz_move, cargs, True, lambda before: {a: p for p, a in before.items()})


def waypoint_cases(ctx):
    from bloqade.shuttle.stdlib.layouts import single_col_zone
    from bloqade.shuttle.stdlib import waypoints
    S = single_col_zone.get_spec(4, 3, 5.0)
    z = S.layout.static_traps["traps"]
    subs = [z[0:2, 0:2], z[1:3, 0:2], z[2:4, 1:3], z[0:2, 1:3]]
    mids = [z[0:2, 0:2].shift(1.0, 2.5), z[1:3, 0:2].shift(-2.0, 1.0)]
    for n in range(0, 5):
        seqs = list(itertools.permutations(subs, n)) if n <= 2 else [tuple(ctx.rng.sample(subs, min(n, 4))) for _ in range(ctx.pick(4, 20))]
        for wps in seqs:
            wps = list(wps)
            if len(wps) >= 3 and ctx.rng.random() < 0.5:
                wps[1] = ctx.rng.choice(mids)            # hover between traps in the middle of the move
            for pick, drop in itertools.product([False, True], repeat=2):
                # documented use: first (if pick) and last (if drop) waypoints are trap sub-grids, destination free
                valid = True

                def end(before, wps=wps, pick=pick, drop=drop):
                    if not wps or not pick or not drop:
                        return None
                    src = [(F(p[0]), F(p[1])) for p in wps[0].positions]
                    dst = [(F(p[0]), F(p[1])) for p in wps[-1].positions]
                    if set(src) & set(dst) and src != dst:
                        return None
                    m = dict(zip(src, dst))
                    return {a: m.get(p, p) for p, a in before.items()}
                def post(sim, before, wps=wps, pick=pick, drop=drop):
                    """what the pick/drop flags are documented to do when only one of them is set"""
                    if not wps:
                        return None
                    src = [(F(p[0]), F(p[1])) for p in wps[0].positions]
                    if pick and not drop:
                        want_held = sorted(a for p, a in before.items() if p in src)
                        if sorted(sim.held.values()) != want_held:
                            return f"pick=True drop=False must leave the {len(want_held)} picked atoms in the tweezers, but {len(sim.held)} are held"
                        lit = sorted(sim.spots().values())
                        if lit != sorted((F(p[0]), F(p[1])) for p in wps[-1].positions):
                            return "pick=True drop=False: the tweezers do not end at the last waypoint"
                    if not pick and not drop and (sim.held or dict(sim.occ) != dict(before)):
                        return "pick=False drop=False must not touch any atom"
                    return None
                overlap = len(wps) >= 2 and pick and drop and (set(wps[0].positions) & set(wps[-1].positions)) and list(wps[0].positions) != list(wps[-1].positions)
                if overlap or (drop and not pick):
                    continue        # no compatible occupancy / nothing to release: outside the quantifier
                judge(ctx, "waypoints.move_by_waypoints", f"{n} waypoints pick={pick} drop={drop} {[tuple(w.x_positions) + tuple(w.y_positions) for w in wps]}",
                      S, waypoints.move_by_waypoints, (I(wps), pick, drop), valid, end, post=post)
    # waypoints of different shapes: the move to the other shape is refused (invalid input: rejected or executable)
    for wps in ([z[0:2, 0:2], z[0:1, 0:2]], [z[0:2, 0:2], z[1:3, 0:2], z[0:2, 0:1]], [z[0:1, 0:1], z[0:2, 0:2]]):
        for pick, drop in ((True, True), (True, False), (False, False)):
            judge(ctx, "waypoints.move_by_waypoints", f"{len(wps)} waypoints of different shapes pick={pick} drop={drop} {[tuple(w.x_positions) + tuple(w.y_positions) for w in wps]}",
                  S, waypoints.move_by_waypoints, (I(wps), pick, drop), False, None)
    # the documented purpose of the flags: a transport split into legs (pick on the first, drop on the last)
    from gen import kernels
    two = kernels.define("@move\ndef two_legs(a, b):\n    move_by_waypoints(a, True, False)\n    move_by_waypoints(b, False, True)\n",
                         move_by_waypoints=waypoints.move_by_waypoints)["two_legs"]
    three = kernels.define("@move\ndef three_legs(a, b, c):\n    move_by_waypoints(a, True, False)\n    move_by_waypoints(b, False, False)\n"
                           "    move_by_waypoints(c, False, True)\n", move_by_waypoints=waypoints.move_by_waypoints)["three_legs"]
    for src_g, dst_g in itertools.permutations(subs, 2):
        if set(src_g.positions) & set(dst_g.positions):
            continue
        for mid in mids:
            def end2(before, src_g=src_g, dst_g=dst_g):
                m = dict(zip([(F(p[0]), F(p[1])) for p in src_g.positions], [(F(p[0]), F(p[1])) for p in dst_g.positions]))
                return {a: m.get(p, p) for p, a in before.items()}
            lab = f"{tuple(src_g.x_positions) + tuple(src_g.y_positions)} -> {tuple(dst_g.x_positions) + tuple(dst_g.y_positions)} via {tuple(mid.x_positions)}"
            judge(ctx, "waypoints.move_by_waypoints", "two legs (pick,no drop)+(no pick,drop) " + lab, S, two,
                  (I([src_g, mid]), I([mid, dst_g])), True, end2)
            judge(ctx, "waypoints.move_by_waypoints", "three legs " + lab, S, three,
                  (I([src_g, mid]), I([mid, mid.shift(0.5, 0.0)]), I([mid.shift(0.5, 0.0), dst_g])), True, end2)


def gemini_cases(ctx):
    from bloqade.shuttle.stdlib.layouts.gemini import logical
    S = logical.get_spec()
    gl = S.layout.static_traps["GL_blocks"]
    gr = S.layout.static_traps["GR_blocks"]
    rows_sets = [list(c) for k in range(1, 6) for c in itertools.combinations(range(5), k)]
    offsets = range(-6, 7) if not ctx.quick else (-2, -1, 0, 1, 2, 5)
    for off in offsets:
        for col in ((-1, 0, 1, 2) if not ctx.quick else (0, 1)):
            sets = rows_sets if not ctx.quick else ctx.rng.sample(rows_sets, 5)
            for rows in sets + [[1, 0], [0, 0], [], [7], [-1], [-1, 0]]:
                valid = (0 <= off <= 4 and col in (0, 1) and sorted_strict(rows) and len(rows) >= 1
                         and all(0 <= r and r + off < 5 for r in rows))

                def end(before, off=off, col=col, rows=rows):
                    src = [(F(gl.x_positions[7 * col + c]), F(gl.y_positions[r])) for c in range(7) for r in rows]
                    dst = [(F(gr.x_positions[7 * col + c]), F(gr.y_positions[r + off])) for c in range(7) for r in rows]
                    m = dict(zip(src, dst))
                    return {a: m.get(p, p) for p, a in before.items()}
                judge(ctx, "gemini.logical.vertical_shift", f"offset={off} col={col} rows={rows}", S, logical.vertical_shift, (off, col, I(rows)), valid, end,
                      sig_extra={"offset_sign": "negative" if off < 0 else "non-negative"})
    for rows in (rows_sets if not ctx.quick else ctx.rng.sample(rows_sets, 6)) + [[], [1, 0], [9]]:
        valid = sorted_strict(rows) and len(rows) >= 1 and all(0 <= r < 5 for r in rows)

        def end(before, rows=rows):
            src = [(F(gr.x_positions[c]), F(gr.y_positions[r])) for c in range(7) for r in rows]
            dst = [(F(gr.x_positions[7 + c]), F(gr.y_positions[r])) for c in range(7) for r in rows]
            m = dict(zip(src, dst))
            return {a: m.get(p, p) for p, a in before.items()}
        judge(ctx, "gemini.logical.gr_zero_to_one", f"rows={rows}", S, logical.gr_zero_to_one, (I(rows),), valid, end)


def user_program_cases(ctx):
    """the library moves called from USER programs: with literal index lists in a program compiled with the layout (so that the paths are
    generated at compile time), and as a sequence of calls in which an earlier call takes its early-return guard (empty lists known only at
    run time) - plain, with aggressive folding, and after AggressiveUnroll"""
    from bloqade.shuttle.passes.fold import AggressiveUnroll
    from bloqade.shuttle.prelude import move as move_group
    from bloqade.shuttle.stdlib.layouts import single_col_zone, two_col_zone
    from bloqade.shuttle.stdlib import waypoints, moves as old_moves
    from gen import kernels
    n = 0
    decs = [("", None), ("(arch_spec=S)", None), ("(arch_spec=S, aggressive=True)", None), ("(aggressive=True)", None), ("", "AggressiveUnroll"), ("(arch_spec=S)", "AggressiveUnroll"),
            ("", "AggressiveUnroll-fixpoint"), ("(arch_spec=S)", "AggressiveUnroll-fixpoint")]

    def build(src, name, S, post, **ns):
        m = kernels.define(src, S=S, **ns)[name]
        if post == "AggressiveUnroll":
            AggressiveUnroll(move_group)(m)
        elif post == "AggressiveUnroll-fixpoint":
            AggressiveUnroll(move_group).fixpoint(m)
        return m
    # --- CZ move with literal lists ---
    S = single_col_zone.get_spec(3, 2, 10.0)
    for cx, cy, qx, qy in (([0], [0], [1], [0]), ([0, 1], [0, 1], [1, 2], [0, 1]), ([2], [1], [0], [1])):
        for fname, meth in (("cz_move", single_col_zone.cz_move), ("default_move_cz", old_moves.default_move_cz)):
            for dec, post in decs:
                src = f"@move{dec}\ndef prog():\n    {fname}({cx}, {cy}, {qx}, {qy})\n"
                lab = f"user program @move{dec}{'+' + post if post else ''}: {fname}({cx}, {cy}, {qx}, {qy}) on layout 3x2@10.0"
                try:
                    m = build(src, "prog", S, post, **{fname: meth})
                except Exception as e:
                    ctx.evaluations += 1
                    ctx.fail({"move": "program/cz_move", "kind": "valid-input-rejected", "error": type(e).__name__}, {"move": "program/cz_move", "call": lab},
                             f"{lab}: refused at definition: {type(e).__name__}: {str(e)[:120]}")
                    continue
                n += 1
                evs = judge(ctx, "program/cz_move", lab, S, m, (), True, lambda before: {a: p for p, a in before.items()})
                if evs is not None and (sum(1 for e in evs if e[0] == "cz") != 1 or sum(1 for e in evs if e[0] == "play") != 2):
                    ctx.fail({"move": "program/cz_move", "kind": "wrong-destination", "detail": "not forward path, gate, return path"}, {"move": "program/cz_move", "call": lab},
                             f"{lab}: the CZ move must play the forward path, the gate and the return path; executed {[e[0] for e in evs]}")
    # --- rearrange with literal lists, and after a call that takes the early-return guard ---
    S = two_col_zone.get_spec(2, 3, 10.0, 2.0)
    zone = S.layout.static_traps["traps"]
    for sx, sy, dx, dy in (([0], [0], [3], [1]), ([0, 2], [0, 1], [1, 3], [1, 2]), ([1], [2], [2], [0])):
        src_s = [(F(zone.x_positions[i]), F(zone.y_positions[j])) for i in sx for j in sy]
        dst_s = [(F(zone.x_positions[i]), F(zone.y_positions[j])) for i in dx for j in dy]

        def end(before, src_s=src_s, dst_s=dst_s):
            m = dict(zip(src_s, dst_s))
            return {a: m.get(p, p) for p, a in before.items()}
        for dec, post in decs:
            src = f"@move{dec}\ndef prog():\n    rearrange({sx}, {sy}, {dx}, {dy})\n"
            lab = f"user program @move{dec}{'+' + post if post else ''}: rearrange({sx}, {sy}, {dx}, {dy}) on layout 2x3@10.0/2.0"
            try:
                m = build(src, "prog", S, post, rearrange=two_col_zone.rearrange)
                n += 1
                judge(ctx, "program/rearrange", lab, S, m, (), True, end, extra_occupied=src_s)
                if "arch_spec" in dec and post is None:
                    # the runner builds the layout again: an EQUAL spec that is another object (kernels module and runner each call get_spec)
                    n += 1
                    judge(ctx, "program/rearrange", lab + ", executed under an equal spec built again", two_col_zone.get_spec(2, 3, 10.0, 2.0), m, (), True, end,
                          extra_occupied=src_s, sig_extra={"equal_spec_other_object": True})
            except Exception as e:
                ctx.evaluations += 1
                ctx.fail({"move": "program/rearrange", "kind": "valid-input-rejected", "error": type(e).__name__}, {"move": "program/rearrange", "call": lab},
                         f"{lab}: refused at definition: {type(e).__name__}: {str(e)[:120]}")
            # the same call with every operand bound by KEYWORD, written in another order than the parameters
            src = f"@move{dec}\ndef prog():\n    rearrange(dst_y={dy}, src_x={sx}, dst_x={dx}, src_y={sy})\n"
            lab = f"user program @move{dec}{'+' + post if post else ''}: rearrange(dst_y={dy}, src_x={sx}, dst_x={dx}, src_y={sy}) on layout 2x3@10.0/2.0"
            try:
                m = build(src, "prog", S, post, rearrange=two_col_zone.rearrange)
                n += 1
                judge(ctx, "program/rearrange", lab, S, m, (), True, end, extra_occupied=src_s, sig_extra={"keywords": True})
            except Exception as e:
                ctx.evaluations += 1
                ctx.fail({"move": "program/rearrange", "kind": "valid-input-rejected", "error": type(e).__name__, "keywords": True}, {"move": "program/rearrange", "call": lab},
                         f"{lab}: refused at definition: {type(e).__name__}: {str(e)[:120]}")
            # the same call after a call whose lists are empty at run time (the library's documented no-op), and followed by another no-op
            src = ("@move" + dec + "\ndef prog(e: ilist.IList[int, Any], a: ilist.IList[int, Any], b: ilist.IList[int, Any], c: ilist.IList[int, Any], d: ilist.IList[int, Any]):\n"
                   "    rearrange(e, e, e, e)\n    rearrange(a, b, c, d)\n    rearrange(e, b, e, d)\n")
            lab = f"user program @move{dec}{'+' + post if post else ''}: rearrange(empty lists); rearrange({sx}, {sy}, {dx}, {dy}); rearrange(empty x lists) on layout 2x3@10.0/2.0"
            try:
                m = build(src, "prog", S, post, rearrange=two_col_zone.rearrange)
                n += 1
                judge(ctx, "program/rearrange", lab, S, m, (I([]), I(sx), I(sy), I(dx), I(dy)), True, end, extra_occupied=src_s,
                      sig_extra={"after_early_return": True, "aggressive_option": "aggressive=True" in dec, "post_pass": post})
            except Exception as e:
                ctx.evaluations += 1
                ctx.fail({"move": "program/rearrange", "kind": "valid-input-rejected", "error": type(e).__name__}, {"move": "program/rearrange", "call": lab},
                         f"{lab}: refused at definition: {type(e).__name__}: {str(e)[:120]}")
    # --- CZ move and waypoint move after calls that take their guards ---
    S = single_col_zone.get_spec(4, 3, 5.0)
    z = S.layout.static_traps["traps"]
    a, b = z[0:2, 0:2], z[2:4, 1:3]

    def end_w(before):
        m = dict(zip([(F(p[0]), F(p[1])) for p in a.positions], [(F(p[0]), F(p[1])) for p in b.positions]))
        return {x: m.get(p, p) for p, x in before.items()}
    for dec, post in decs:
        src = ("@move" + dec + "\ndef prog(e: ilist.IList[int, Any], w0, w):\n    cz_move(e, e, e, e)\n    move_by_waypoints(w0, True, True)\n"
               "    move_by_waypoints(w, True, True)\n    cz_move(e, e, e, e)\n")
        lab = f"user program @move{dec}{'+' + post if post else ''}: cz_move(empty lists); move_by_waypoints(no waypoints); move_by_waypoints(a -> b); cz_move(empty lists)"
        try:
            m = build(src, "prog", S, post, cz_move=single_col_zone.cz_move, move_by_waypoints=waypoints.move_by_waypoints)
            n += 1
            judge(ctx, "program/move_by_waypoints", lab, S, m, (I([]), I([]), I([a, b])), True, end_w, extra_occupied=[(F(p[0]), F(p[1])) for p in a.positions],
                  sig_extra={"after_early_return": True, "aggressive_option": "aggressive=True" in dec, "post_pass": post})
        except Exception as e:
            ctx.evaluations += 1
            ctx.fail({"move": "program/move_by_waypoints", "kind": "valid-input-rejected", "error": type(e).__name__}, {"move": "program/move_by_waypoints", "call": lab},
                     f"{lab}: refused at definition: {type(e).__name__}: {str(e)[:120]}")
    # --- one user helper that only calls a library move, shared by programs compiled for DIFFERENT layouts one after the other ---
    SA, SB = two_col_zone.get_spec(2, 3, 10.0, 2.0), two_col_zone.get_spec(2, 3, 16.0, 2.0)
    helper = kernels.define("@move\ndef relocate(sx: ilist.IList[int, Any], sy: ilist.IList[int, Any], dx: ilist.IList[int, Any], dy: ilist.IList[int, Any]):\n    rearrange(sx, sy, dx, dy)\n",
                            rearrange=two_col_zone.rearrange)["relocate"]
    sx, sy, dx, dy = [0, 2], [0, 1], [1, 3], [1, 2]
    for order in (("A", "B", "A"), ("B", "A")):
        for dec in ("(arch_spec=S)", "(arch_spec=S, aggressive=True)", ""):
            for step, name in enumerate(order):
                Sx = {"A": SA, "B": SB}[name]
                zone = Sx.layout.static_traps["traps"]
                src_s = [(F(zone.x_positions[i]), F(zone.y_positions[j])) for i in sx for j in sy]
                dst_s = [(F(zone.x_positions[i]), F(zone.y_positions[j])) for i in dx for j in dy]

                def end_h(before, src_s=src_s, dst_s=dst_s):
                    m = dict(zip(src_s, dst_s))
                    return {a: m.get(p, p) for p, a in before.items()}
                lab = f"user program @move{dec} calling a shared helper around rearrange, compiled for layouts {order} in turn, step {step} (layout {name})"
                try:
                    m = kernels.define(f"@move{dec}\ndef prog():\n    relocate({sx}, {sy}, {dx}, {dy})\n", S=Sx, relocate=helper)["prog"]
                    n += 1
                    judge(ctx, "program/rearrange", lab, Sx, m, (), True, end_h, extra_occupied=src_s, sig_extra={"shared_helper_history": True})
                except Exception as e:
                    ctx.evaluations += 1
                    ctx.fail({"move": "program/rearrange", "kind": "valid-input-rejected", "error": type(e).__name__, "shared_helper_history": True}, {"move": "program/rearrange", "call": lab},
                             f"{lab}: refused at definition: {type(e).__name__}: {str(e)[:120]}")
    ctx.count("library moves called from user programs (literal lists / sequences with early returns) x 8 compilation routes", n)


def run(ctx):
    warnings.simplefilter("ignore")
    ctx.rule = ("every library move on the layout its module provides: single-zone CZ move (both modules) and two-column rearrange for layout "
                "sizes up to 4x4 / 3x3 with several spacings and all sorted index lists up to length 2 plus unsorted, duplicated, out-of-range, "
                "negative and empty ones; waypoint moves with 0-4 waypoints, all pick/drop flags, hovering waypoints; Gemini vertical shift for all "
                "offsets -6..6, columns -1..2, all row subsets, and the GR block transfer for all row subsets; each accepted call is executed, its "
                "paths are fed to an AOD simulator with the compatible occupancy (sites where spots light up are occupied) and the final occupancy is "
                "compared with the documentation; non-trivial = distinct valid calls that are executable and end where documented")
    cz_cases(ctx)
    rearrange_cases(ctx)
    same_arguments_on_two_layouts(ctx)
    waypoint_cases(ctx)
    gemini_cases(ctx)
    user_program_cases(ctx)
    # ---- the Gallina simulator on the same paths ----
    cases = COQ_CASES if len(COQ_CASES) <= ctx.pick(400, 3000) else ctx.rng.sample(COQ_CASES, ctx.pick(400, 3000))
    chunks = [cases[i:i + 25] for i in range(0, len(cases), 25)]
    bodies = [(f"sim_{k}", "From BS Require Import Core.Show Core.Base Model.Aod.\n"
               "Definition row (c : ast * list spath * option (list Q * list Q * list nat * list nat * list nat * list nat)) : string :=\n"
               "  match c with (st, ps, doc) =>\n"
               "    (show_sim (sim_paths st ps) ++ \"|\" ++ show_bool (round_trip_ok (traps st) (occ st) ps) ++ show_bool (transport_ok (traps st) (occ st) ps)\n"
               "     ++ show_bool (transport_sel_ok (traps st) (occ st) ps)\n"
               "     ++ match doc with Some (zx, zy, sx, sy, dx, dy) => show_bool (documented_transport zx zy sx sy dx dy ps) | None => \"-\" end\n"
               "     ++ show_bool (legs_transport_ok (traps st) (occ st) ps))%string end.\n"
               "Eval vm_compute in (lines (map row " + clist([c[0] for c in ch]) + ")).") for k, ch in enumerate(chunks)]
    mism, not_recognised, n_rt, n_tr, not_transport, n_sel, not_sel, n_doc, not_doc = [], [], 0, 0, [], 0, [], 0, []
    n_legs, not_legs = 0, []
    for ch, (ok, vals, log) in zip(chunks, coqrun.eval_many(ctx.bdir, bodies)):
        if not ok or len(vals) != 1 or len(vals[0]) != len(ch):
            ctx.obligation("coqc simulator file evaluates", False, log[-800:])
            continue
        for c, line in zip(ch, vals[0]):
            simtxt, _, rt = line.rpartition("|")
            if simtxt != c[1]:
                mism.append({"model": simtxt[:200], "python_simulator": c[1][:200], "call": c[2]})
            if c[3] == "round-trip":
                n_rt += 1
                if rt[:1] != "T":
                    not_recognised.append({"call": c[2]})
            if c[4] and c[1].startswith("ok"):
                n_doc += 1
                if rt[3:4] != "T":
                    not_doc.append({"call": c[2]})
            if c[3] == "legs" and c[1].startswith("ok"):
                n_legs += 1
                if rt[4:5] != "T":
                    not_legs.append({"call": c[2]})
            if c[3] == "selected-transport" and c[1].startswith("ok"):
                n_sel += 1
                if rt[2:3] != "T":
                    not_sel.append({"call": c[2]})
            if c[3] == "transport" and c[1].startswith("ok"):
                n_tr += 1
                if rt[1:2] != "T":
                    not_transport.append({"call": c[2]})
    ctx.correspondence("Model.Aod.sim_paths (Coq) = the Python simulator, on the paths the library actually played", len(cases), mism)
    ctx.correspondence("every valid CZ-move call plays paths of the round-trip shape on trap sites (round_trip_ok evaluated in Coq), so theorem "
                       "C08_recognised_call_is_executable_and_returns_every_atom applies to it", n_rt, not_recognised)
    ctx.count("valid CZ-move calls recognised as round trips by the Coq recogniser", n_rt - len(not_recognised))
    ctx.correspondence("every accepted valid rearrange / pick-and-drop waypoint call plays one path of the transport shape between trap grids with a "
                       "vacant destination (transport_ok evaluated in Coq), so theorem C08_recognised_transport_is_executable_and_delivers applies",
                       n_tr, not_transport)
    ctx.count("valid transport calls recognised by the Coq recogniser", n_tr - len(not_transport))
    ctx.correspondence("every accepted valid gemini vertical_shift call plays one path of the selected-transport shape (transport_sel_ok evaluated "
                       "in Coq), so theorem C08_recognised_selected_transport_is_executable_and_delivers applies", n_sel, not_sel)
    ctx.count("valid gemini vertical_shift calls recognised by the Coq recogniser", n_sel - len(not_sel))
    ctx.correspondence("every accepted valid rearrange call starts on zone[src_x, src_y] and ends on zone[dst_x, dst_y] (documented_transport evaluated "
                       "in Coq), so theorem C08_documented_transport_delivers gives its documented outcome", n_doc, not_doc)
    ctx.count("valid rearrange calls whose documented source/destination grids are confirmed in Coq", n_doc - len(not_doc))
    ctx.correspondence("every accepted multi-leg waypoint move (pick on the first call, drop on the last) glues into ONE transport path between trap "
                       "grids (legs_transport_ok evaluated in Coq), so theorems C08_legs_simulate_as_the_merged_path and "
                       "C08_recognised_multi_leg_move_is_executable_and_delivers apply", n_legs, not_legs)
    ctx.count("multi-leg waypoint moves recognised by the Coq recogniser", n_legs - len(not_legs))
    kernel_models(ctx)
    ctx.sample({"call": COQ_CASES[0][2], "simulator": COQ_CASES[0][1][:200]} if COQ_CASES else "none")
    ctx.explanation = ("Theorems about the simulator that defines 'physically executable': every accepted sequence of paths conserves the atoms; "
                       "accepted releases are onto vacant trap sites, spots light up on trap sites, jumps while holding and dimension mismatches are "
                       "refused. Whether each library move yields accepted paths and ends where documented is decided by running the library on its "
                       "layouts over the stated bounds (exhaustive in the thorough tier) and simulating the played paths in Python and in Coq.")


def kernel_models(ctx):
    """Model/LibMoves.v against the library kernels: same verdict (rejected / accepted) and, when accepted, the same played paths"""
    acc, rej = [c for c in LIB_CASES if c[5]], [c for c in LIB_CASES if not c[5]]
    cap = ctx.pick(400, 3000)
    cases = (acc if len(acc) <= cap else ctx.rng.sample(acc, cap)) + (rej if len(rej) <= cap else ctx.rng.sample(rej, cap))
    chunks = [cases[i:i + 40] for i in range(0, len(cases), 40)]
    bodies = [(f"lib_{k}", "From BS Require Import Core.Show Core.Base Model.Aod Model.LibMoves.\n"
               "Definition row (c : option (list spath) * option (list spath) * bool * (bool * bool)) : string :=\n"
               "  match c with (m, i, strict, (park, pre)) => (show_bool (agrees m i) ++ show_bool (match m with Some _ => true | None => false end) ++ show_bool strict\n"
               "     ++ show_bool park ++ show_bool pre)%string end.\n"
               "Eval vm_compute in (lines (map row " + clist([f"({c[1]}, {c[2]}, {c[4]}, {c[6]})" for c in ch]) + ")).") for k, ch in enumerate(chunks)]
    mism, n_acc, n_rej, n_strict = [], 0, 0, 0
    n_doc, doc_bad, pre_bad = 0, [], []
    for ch, (ok, vals, log) in zip(chunks, coqrun.eval_many(ctx.bdir, bodies)):
        if not ok or len(vals) != 1 or len(vals[0]) != len(ch):
            ctx.obligation("coqc library-kernel file evaluates", False, log[-800:])
            continue
        for c, line in zip(ch, vals[0]):
            if line[:1] != "T":
                mism.append({"call": c[3], "model_accepts": line[1:2] == "T", "implementation_accepts": c[5]})
            n_acc += c[5]
            n_rej += not c[5]
            n_strict += (c[0] == "two_col_zone.rearrange" and c[5] and line[2:3] == "T")
            if c[0] == "two_col_zone.rearrange":
                # the harness' notion of "documented preconditions" is the Coq predicate the theorem is stated with
                if (line[4:5] == "T") != bool(c[7]):
                    pre_bad.append({"call": c[3], "coq_preconditions": line[4:5] == "T", "harness_valid": bool(c[7])})
                # theorem C08_rearrange_documented_call_is_accepted, observed: parking_ok layout + preconditions => accepted and strict
                if line[3:4] == "T" and line[4:5] == "T":
                    n_doc += 1
                    if not (c[5] and line[1:2] == "T" and line[2:3] == "T"):
                        doc_bad.append({"call": c[3], "implementation_accepts": c[5], "model_accepts": line[1:2] == "T", "strict": line[2:3] == "T"})
    ctx.correspondence("Model.LibMoves (cz_model / rearrange_model: the kernels as functions of zone coordinates and index lists) vs the library: "
                       "same verdict and, when accepted, the same played paths", len(cases), mism)
    ctx.count("library-kernel model: calls the implementation accepts", n_acc)
    ctx.count("library-kernel model: calls the implementation rejects", n_rej)
    ctx.count("accepted rearrange calls whose parking coordinates are pairwise different (rearrange_strict)", n_strict)
    ctx.correspondence("rearrange_preconditionsb (the documented preconditions as stated in Coq) = the harness' notion of a valid rearrange call", 
                       sum(1 for c in cases if c[0] == "two_col_zone.rearrange"), pre_bad)
    ctx.correspondence("on layouts where parking_ok holds (evaluated in Coq), every rearrange call meeting the documented preconditions is accepted with "
                       "pairwise different parking coordinates, as theorem C08_rearrange_documented_call_is_accepted says", n_doc, doc_bad)
    ctx.count("documented rearrange calls on layouts where parking is possible (theorem instances observed)", n_doc)
    # the zone coordinates handed to the kernel model are those of the builder model (Model/Builders.v), and parking_ok is what
    # theorem C08_rearrange_on_every_two_column_layout predicts from pitch and gate spacing
    rows = [f"({cnat(nx)}, {cnat(ny)}, {q(sp)}, {q(g)}, {clist([q(v) for v in zx])}, {clist([q(v) for v in zy])})" for nx, ny, sp, g, zx, zy in TWO_COL_LAYOUTS]
    body = ("From BS Require Import Core.Show Core.Base Core.GridQ Model.Arch Model.Builders Model.Aod Model.LibMoves.\n"
            "Definition row (c : nat * nat * Q * Q * list Q * list Q) : string :=\n"
            "  match c with (nx, ny, s, g, zx, zy) =>\n"
            "    let t := two_col_traps nx ny s g in\n"
            "    (show_bool (qlist_qeqb (xpos t) zx && qlist_qeqb (ypos t) zy) ++ show_bool (parking_ok zx zy))%string end.\n"
            "Eval vm_compute in (lines (map row " + clist(rows) + ")).")
    ok, vals, log = coqrun.eval_lines(ctx.bdir, "layouts", body)
    bad = []
    if not ok or len(vals) != 1 or len(vals[0]) != len(rows):
        ctx.obligation("coqc layouts file evaluates", False, log[-600:])
    else:
        for (nx, ny, sp, g, zx, zy), line in zip(TWO_COL_LAYOUTS, vals[0]):
            predicted = sp > 6 and g > 0
            if line[:1] != "T" or (predicted and line[1:2] != "T"):
                bad.append({"layout": [nx, ny, sp, g], "coordinates_agree": line[:1] == "T", "parking_ok": line[1:2] == "T", "theorem_predicts_parking_ok": predicted})
    ctx.correspondence("two-column layouts: the real zone coordinates = xpos/ypos of Model.Builders.two_col_traps, and parking_ok holds wherever pitch > 6 "
                       "(C08_rearrange_on_every_two_column_layout)", len(rows), bad)


def replay(data):
    return True, "re-run bin/check C08 (inputs are enumerated): " + str(data.get("what"))
