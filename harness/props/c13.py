"""C13 - Layout/ArchSpec identity is coherent and the zone index matches the tables."""
import itertools
from fractions import Fraction

from vcommon import coqrun
from vcommon.coqrun import cQ, cZ, clist, cnat, cstr

from props.c12 import fq, show_grid

COQ_IMPORT = "From BS Require Import Core.Show Core.Base Core.GridQ Model.Arch.\n"
LF = ["static_traps", "fillable", "has_cz", "has_local", "special_grid"]
LFC = ["FStatic", "FFillable", "FHasCz", "FHasLocal", "FSpecial"]


def pool():
    from bloqade.geometry.dialects.grid import Grid
    from kirin.dialects import ilist
    g0 = Grid.from_positions([0.0, 2.0], [0.0, 1.5])
    g1 = g0.shift(4.0, -1.0)
    g2 = Grid.from_positions([-3.0], [0.0, 1.0, 5.0])
    g3 = g0.get_view(ilist.IList([0, 1]), ilist.IList([0, 1]))     # a view equal to its parent
    g4 = Grid.from_positions([7.0, 9.0], [])                        # no sites: one axis empty
    g5 = g0.get_view(ilist.IList([1]), ilist.IList([0, 1]))
    return [g0, g1, g2, g3, g4, g5]


def grid_coq(g):
    from bloqade.geometry.dialects.grid.types import SubGrid
    if isinstance(g, SubGrid):
        p = g.parent
        return (f"(GSub {gridq_coq(p)} {clist([cnat(i) for i in g.x_indices])} {clist([cnat(i) for i in g.y_indices])})")
    return f"(GPlain {gridq_coq(g)})"


def gridq_coq(g):
    o = lambda v: "None" if v is None else f"(Some {cQ(v)})"
    return f"(mkGQ {clist([cQ(s) for s in g.x_spacing])} {clist([cQ(s) for s in g.y_spacing])} {o(g.x_init)} {o(g.y_init)})"


def layout_coq(static, fillable, has_cz, has_local, special):
    d = lambda t: clist([f"({cstr(k)}, {grid_coq(v)})" for k, v in t.items()])
    s = lambda t: clist([cstr(x) for x in sorted(t)])
    return f"(mkLayout {d(static)} {s(fillable)} {s(has_cz)} {s(has_local)} {d(special)})"


def make_layout(args):
    from bloqade.shuttle.arch import Layout
    static, fillable, has_cz, has_local, special = args
    try:
        return Layout(dict(static), set(fillable), set(has_cz), set(has_local), special_grid=dict(special)), None
    except ValueError as e:
        return None, "ValueError"


def reflect_fields(ctx):
    """which fields == and hash() read: probe objects that differ in exactly one field"""
    from bloqade.shuttle.arch import ArchSpec, Layout
    P = pool()
    base = ({"a": P[0]}, {"a"}, {"a"}, {"a"}, {"s": P[2]})
    alt = ({"a": P[1]}, set(), set(), set(), {"s": P[1]})
    b, _ = make_layout(base)
    eqf, hashf = [], []
    for i, f in enumerate(LF):
        args = list(base)
        args[i] = alt[i]
        o, _ = make_layout(args)
        if not (b == o):
            eqf.append(f)
        if hash(b) != hash(o):
            hashf.append(f)
    A0 = ArchSpec(layout=b, float_constants={"x": 1.0}, int_constants={"n": 1})
    variants = {"layout": ArchSpec(layout=make_layout((alt[0],) + base[1:])[0], float_constants={"x": 1.0}, int_constants={"n": 1}),
                "float_constants": ArchSpec(layout=b, float_constants={"x": 2.0}, int_constants={"n": 1}),
                "int_constants": ArchSpec(layout=b, float_constants={"x": 1.0}, int_constants={"n": 2})}
    aeq = [k for k, v in variants.items() if not (A0 == v)]
    ahash = [k for k, v in variants.items() if hash(A0) != hash(v)]
    body = coqrun.HEADER + COQ_IMPORT
    body += f"Definition eq_fields : list lfield := {clist([LFC[LF.index(f)] for f in eqf])}.\n"
    body += f"Definition hash_fields : list lfield := {clist([LFC[LF.index(f)] for f in hashf])}.\n"
    body += ("Lemma eq_reads_every_field : forallb (fun f => existsb (lfield_eqb f) eq_fields) all_lfields = true.\nProof. vm_compute. reflexivity. Qed.\n"
             "Lemma hash_reads_only_eq_fields : forallb (fun f => existsb (lfield_eqb f) eq_fields) hash_fields = true.\nProof. vm_compute. reflexivity. Qed.\n")
    ok, log = coqrun.compile_lemma_file(ctx.bdir, "Gen_C13", body)
    ctx.obligation("Gen_C13: Layout.__eq__ reads all five fields; __hash__ reads only fields __eq__ reads", ok, log[-500:])
    ctx.obligation("reflected: ArchSpec == distinguishes layout, float_constants, int_constants; hash reads a subset",
                   sorted(aeq) == ["float_constants", "int_constants", "layout"] and set(ahash) <= set(aeq), f"eq:{aeq} hash:{ahash}")
    ctx.extra["reflected_eq_fields"] = eqf
    ctx.extra["reflected_hash_fields"] = hashf
    for f in LF:
        if f not in eqf:
            ctx.fail({"site": "Layout.__eq__", "ignored_field": f}, {"field": f},
                     f"two layouts differing only in {f} compare equal" + (" but hash differently" if f in hashf else ""))


def dict_eq(a, b):
    return a == b


def layouts_space(rng, n):
    P = pool()
    statics = [{"a": P[0]}, {"a": P[1]}, {"a": P[0], "b": P[2]}, {"b": P[2], "a": P[0]}, {"a": P[3]}, {"a": P[0], "b": P[3]}, {},
               {"a": P[4], "b": P[2]}, {"c": P[5], "a": P[0]},
               # the same (name, grid) pairs as {"a": P0} + special {"s": P2} / {"t": P2}, but with the zone in the OTHER table
               {"a": P[0], "s": P[2]}, {"a": P[0], "t": P[2]}]
    sets = [set(), {"a"}, {"a", "b"}, {"b"}]
    specials = [{}, {"s": P[2]}, {"s": P[1]}, {"t": P[2]}, {"s": P[0]}, {"s": P[4]}]
    allc = list(itertools.product(statics, sets, sets, sets, specials))
    if n < len(allc):
        # keep near-identical pairs frequent: vary one field at a time around a few anchors
        anchors = rng.sample(allc, max(3, n // 12))
        out = list(anchors)
        for a in anchors:
            for i, alts in enumerate((statics, sets, sets, sets, specials)):
                for v in rng.sample(alts, min(2, len(alts))):
                    t = list(a)
                    t[i] = v
                    out.append(tuple(t))
        # always present: layouts with the same (name, grid) pairs and capability sets whose zone sits in different tables
        moved = []
        for nm in ("s", "t"):
            for caps in ((set(), set(), set()), ({"a"}, {"a"}, set())):
                moved.append(({"a": P[0], nm: P[2]}, *caps, {}))
                moved.append(({"a": P[0]}, *caps, {nm: P[2]}))
        return moved + out[:n - len(moved)]
    return allc


def oracle_layout(ctx, L, args, label):
    """index coherence and tight bounding box on one constructed layout"""
    rep = {"layout": label}
    tables = list(L.static_traps.items()) + list(L.special_grid.items())
    for n, g in tables:
        zid = L.get_zone_id(g)
        # a name may be used in both tables (for different grids): the index is coherent if the name maps back in either
        back = [t[zid] for t in (L.static_traps, L.special_grid) if zid in t]
        if zid is None or not any(b == g for b in back):
            ctx.fail({"kind": "zone-index", "layout": label.split("(")[0], "zone": n, "lookup": zid}, rep,
                     f"{label}: get_zone_id(grid of {n!r}) = {zid!r}, which does not map back to that grid")
    for (n1, g1), (n2, g2) in itertools.combinations(tables, 2):
        if g1 == g2:
            ctx.fail({"kind": "two-names-one-grid", "layout": label.split("(")[0], "names": sorted([n1, n2])}, rep,
                     f"{label}: names {n1!r} and {n2!r} denote the same grid")
    sites = [p for _, g in tables for p in g.positions]
    try:
        bb = L.bounding_box()
    except ValueError:
        bb = None
    if sites:
        xs, ys = [p[0] for p in sites], [p[1] for p in sites]
        want = (min(xs), max(xs), min(ys), max(ys))
        if bb is None or tuple(bb) != want:
            ctx.fail({"kind": "bounding-box", "layout": label.split("(")[0]}, rep,
                     f"{label}: bounding_box() = {bb} but the tight box around all sites is {want}")
    elif bb is not None:
        ctx.fail({"kind": "bounding-box", "layout": label.split("(")[0], "case": "no sites"}, rep,
                 f"{label}: bounding_box() = {bb} although the layout has no sites")


def hash_collision_pairs(ctx):
    """layouts / specs that differ in ONE value whose Python hash collides with the other's (hash(-1) == hash(-2), hash(2.0**61) == hash(1.0)):
    equality must tell them apart whatever the hash does"""
    from bloqade.geometry.dialects.grid import Grid
    from bloqade.shuttle.arch import ArchSpec, Layout
    n = 0
    colliding = [(-1.0, -2.0), (1.0, float(2 ** 61)), (0.0, float(2 ** 61 - 1) * 0.0 - 0.0)]
    colliding = [(a, b) for a, b in colliding if a != b and hash(a) == hash(b)]
    mk = lambda xi, yi, sx=2.0: Grid((sx,), (1.5,), xi, yi)
    pairs = []
    for a, b in colliding:
        pairs += [("static zone x origin", lambda v: Layout(static_traps={"a": mk(v, 0.0)}, fillable=set(), has_cz=set(), has_local=set(), special_grid={}), a, b),
                  ("static zone y origin", lambda v: Layout(static_traps={"a": mk(0.0, v)}, fillable=set(), has_cz=set(), has_local=set(), special_grid={}), a, b),
                  ("special grid x origin", lambda v: Layout(static_traps={"a": mk(5.0, 5.0)}, fillable=set(), has_cz=set(), has_local=set(), special_grid={"s": mk(v, 0.0)}), a, b),
                  ("special grid y origin", lambda v: Layout(static_traps={"a": mk(5.0, 5.0)}, fillable=set(), has_cz=set(), has_local=set(), special_grid={"s": mk(0.0, v)}), a, b)]
        if a > 0 and b > 0:
            pairs.append(("static zone x spacing", lambda v: Layout(static_traps={"a": mk(0.0, 0.0, v)}, fillable=set(), has_cz=set(), has_local=set(), special_grid={}), a, b))
    L0 = Layout(static_traps={"a": mk(0.0, 0.0)}, fillable=set(), has_cz=set(), has_local=set(), special_grid={})
    spec_pairs = [("float constant", lambda v: ArchSpec(layout=L0, float_constants={"x": v}), a, b) for a, b in colliding]
    spec_pairs += [("int constant", lambda v: ArchSpec(layout=L0, int_constants={"n": v}), -1, -2)]
    for what, build, a, b in pairs + spec_pairs:
        try:
            A, B = build(a), build(b)
        except Exception as e:
            ctx.hist("hash-colliding pairs", f"constructor raises {type(e).__name__}")
            continue
        ctx.evaluations += 1
        n += 1
        rep = {"collision": what, "values": [a, b]}
        if A == B or B == A:
            ctx.fail({"kind": "eq-vs-fields", "case": "hash-colliding values", "what": what}, rep,
                     f"two {'specs' if 'constant' in what else 'layouts'} that differ in the {what} ({a} vs {b}, equal Python hashes) compare equal")
        if not (A == build(a)) or hash(A) != hash(build(a)):
            ctx.fail({"kind": "eq-but-hash-differs", "case": "hash-colliding values", "what": what}, rep, f"two identically built objects ({what}={a}) are not equal with equal hashes")
        if isinstance(A, Layout) and ArchSpec(layout=A) == ArchSpec(layout=B):
            ctx.fail({"kind": "archspec-eq", "case": "hash-colliding values", "what": what}, rep, f"ArchSpecs over layouts differing in the {what} compare equal")
        ctx.nt(("collision", what, a, b))
    ctx.count("pairs differing in one value with colliding Python hashes", n)


def source_reading(ctx):
    """arch.py read with ast (harness/gen/arch_reader.py): the fields __eq__ / __hash__ look at, how the zone index is built and read"""
    import os
    from gen import arch_reader
    from vcommon import paths
    try:
        info = arch_reader.analyse(os.path.join(paths.REPO, "src/bloqade/shuttle/arch.py"))
    except Exception as e:
        ctx.obligation("source: arch.py can be read by the identity reader", False, f"{type(e).__name__}: {e}"[:300])
        return
    ctx.extra["source_identity"] = {k: v for k, v in info.items() if k != "problems"}
    obs = arch_reader.obligations(info)
    for name, ok, detail in obs:
        ctx.obligation(name, ok, detail[:300])
    if all(o[1] for o in obs):
        ok, log = coqrun.compile_lemma_file(ctx.bdir, "Gen_C13_src", arch_reader.coq_file(info))
        ctx.obligation("Gen_C13_src: equality / hash look at the model's tables (compiled)", ok, log[-400:])
    # the three methods with a body worth translating: the index loop, the look-up, the bounding box (harness/gen/arch_translate.py)
    from gen import arch_translate
    name = "arch.py: Layout.__post_init__ / get_zone_id / bounding_box are inside the translated fragment (generated model Gen_C13_fun_src.v)"
    try:
        body = arch_translate.generate(os.path.join(paths.REPO, "src/bloqade/shuttle/arch.py"))
    except Exception as e:
        ctx.obligation(name, False, f"{type(e).__name__}: {e}"[:300])
        return
    ctx.obligation(name, True)
    ok, log = coqrun.compile_lemma_file(ctx.bdir, "Gen_C13_fun_src", body, timeout=300)
    ctx.obligation("the translated index loop, look-up and bounding box (sentinel form) equal Model.Arch's build_index / get_zone_id / bounding_box for "
                   "every layout (build_index_src_eq, bounding_box_src_eq), closed under the global context",
                   ok and log.count("Closed under the global context") >= 2, log[-600:])


def filled_zone_layouts(ctx):
    """layouts whose zones are FILLED grids (the library's Grid subclass): without vacancies, with vacancies, built in two ways, next to the
    plain grid - equality of layouts follows equality of the zones, equal layouts hash equally, two names never share a grid"""
    from bloqade.geometry.dialects.grid import Grid
    from bloqade.shuttle.arch import ArchSpec, Layout
    from bloqade.shuttle.dialects.filled.types import FilledGrid
    P = Grid.from_positions([0.0, 2.0, 4.5], [0.0, 3.0])
    zones = {"plain": P, "filled, no vacancy (vacate [])": FilledGrid.vacate(P, []),
             "filled, no vacancy (fill all)": FilledGrid.fill(P, [(i, j) for i in range(3) for j in range(2)]),
             "filled, one vacancy": FilledGrid.vacate(P, [(0, 0)]), "filled, one vacancy (built by fill)": FilledGrid.fill(P, [(i, j) for i in range(3) for j in range(2) if (i, j) != (0, 0)]),
             "filled, other vacancy": FilledGrid.vacate(P, [(1, 1)]), "view of the plain grid": P[0:3, 0:2],
             # the same two vacancies listed in either order (their tuple hashes collide in a small set table), and three
             "filled, two vacancies": FilledGrid.vacate(P, [(0, 1), (1, 0)]), "filled, two vacancies (other order)": FilledGrid.vacate(P, [(1, 0), (0, 1)]),
             "filled, three vacancies": FilledGrid.vacate(FilledGrid.vacate(P, [(2, 1)]), [(0, 0), (1, 1)]),
             "filled, three vacancies (other order)": FilledGrid.vacate(P, [(1, 1), (0, 0), (2, 1)])}
    n = 0
    for (na, A), (nb, B) in itertools.product(zones.items(), repeat=2):
        ctx.evaluations += 1
        n += 1
        rep = {"filled_zone_layouts": [na, nb]}
        same = bool(A == B)
        view = "view" in na or "view" in nb
        if same != bool(B == A):
            ctx.fail({"kind": "eq-not-symmetric", "zones": "filled", "with_view": view}, rep, f"zone equality between {na} and {nb} is not symmetric")
        if same and hash(A) != hash(B):
            ctx.fail({"kind": "eq-but-hash-differs", "zones": "filled", "with_view": view, "level": "zone"}, rep, f"zones {na} and {nb} compare equal but hash differently")
        try:
            La, Lb = Layout({"a": A}, {"a"}, set(), set()), Layout({"a": B}, {"a"}, set(), set())
        except Exception as e:
            ctx.fail({"kind": "constructor-raises", "zones": "filled", "with_view": view}, rep, f"Layout with a {na} zone raises {type(e).__name__}")
            continue
        if bool(La == Lb) != same:
            ctx.fail({"kind": "eq-vs-fields", "zones": "filled", "with_view": view}, rep, f"layouts whose only zone is {na} / {nb}: zones compare {'equal' if same else 'unequal'} but the layouts compare {'equal' if La == Lb else 'unequal'}")
        if La == Lb and hash(La) != hash(Lb):
            ctx.fail({"kind": "eq-but-hash-differs", "zones": "filled", "with_view": view}, rep, f"equal layouts (zone {na} / {nb}) hash differently")
        sa, sb = ArchSpec(layout=La), ArchSpec(layout=Lb)
        if sa == sb and hash(sa) != hash(sb):
            ctx.fail({"kind": "archspec-eq-hash", "zones": "filled", "with_view": view}, rep, f"equal ArchSpecs (zone {na} / {nb}) hash differently")
        if La == Lb and La.get_zone_id(B) != "a":
            ctx.fail({"kind": "zone-index", "zones": "filled", "with_view": view, "lookup": La.get_zone_id(B)}, rep, f"get_zone_id of a grid equal to the registered zone ({na} / {nb}) is {La.get_zone_id(B)!r}")
        # the two zones under two names: accepted exactly when they are different grids
        try:
            L2 = Layout({"a": A, "b": B}, set(), set(), set())
        except Exception:
            L2 = None
        if (L2 is None) != same:
            ctx.fail({"kind": "two-names-one-grid" if L2 is not None else "constructor-rejects-distinct-grids", "zones": "filled", "with_view": view, "names": ["a", "b"]}, rep,
                     f"Layout({{a: {na}, b: {nb}}}) is {'accepted' if L2 is not None else 'rejected'} although the zones compare {'equal' if same else 'unequal'}")
        elif L2 is not None:
            oracle_layout(ctx, L2, None, f"filled-zone layout ({na} / {nb})")
            ctx.nt(("filled-zone-layout", na, nb))
    ctx.count("pairs of plain / filled zones as layouts", n)
    # a filled zone whose extent has been read (a bounding box was asked for), THEN transformed: the transformed grid is a zone of another
    # layout whose box must be the box of the transformed sites - and equal to the box of an equal layout built from scratch
    vac = [(1, 0)]
    for tname, tf in (("scale(10, 5)", lambda g: g.scale(10.0, 5.0)), ("shift(3, -2)", lambda g: g.shift(3.0, -2.0)), ("repeat(2, 1, 30, 1)", lambda g: g.repeat(2, 1, 30.0, 1.0)),
                      ("scale then shift", lambda g: g.scale(2.0, 2.0).shift(1.0, 1.0)), ("view [0:2, :]", lambda g: g[0:2, :])):
        F = FilledGrid.vacate(P, vac)
        first = Layout({"a": F}, {"a"}, set(), set())
        first.bounding_box(), F.width, F.height, list(F.x_positions), list(F.y_positions), list(F.positions)
        G = tf(F)
        fresh = tf(FilledGrid.vacate(Grid.from_positions([0.0, 2.0, 4.5], [0.0, 3.0]), vac))
        plain = tf(Grid.from_positions([0.0, 2.0, 4.5], [0.0, 3.0]))
        want = (min(plain.x_positions), max(plain.x_positions), min(plain.y_positions), max(plain.y_positions))
        ctx.evaluations += 1
        rep = {"filled_zone_layouts": ["filled zone read, then " + tname, ""], "history": ["bounding_box of a layout with the filled zone", tname, "bounding_box of a layout with the result"]}
        try:
            got = tuple(Layout({"a": G}, {"a"}, set(), set()).bounding_box())
            got_fresh = tuple(Layout({"a": fresh}, {"a"}, set(), set()).bounding_box())
        except Exception as e:
            ctx.fail({"kind": "bounding-box", "zones": "filled", "with_view": False, "case": tname}, rep, f"bounding_box of a layout with a transformed filled zone raises {type(e).__name__}")
            continue
        if got != want or got_fresh != want or not (G == fresh) or hash(G) != hash(fresh):
            ctx.fail({"kind": "bounding-box", "zones": "filled", "with_view": False, "case": tname}, rep,
                     f"a filled zone whose extent had been read, then {tname}: bounding_box() = {got} (an equal zone built from scratch: {got_fresh}); the tight box is {want}" +
                     ("" if G == fresh and hash(G) == hash(fresh) else "; the two zones do not compare / hash equal"))
        else:
            ctx.nt(("filled-zone-history", tname))


def index_after_analyses(ctx):
    """the zone index of a layout is asked about grids that are NOT its zones (filled copies, views, shifted copies) before and after the
    package's own analyses and passes have worked with that layout: a name it gives must map to exactly that grid, and the analyses are
    readers of the layout"""
    from bloqade.geometry.dialects.grid import Grid
    from bloqade.shuttle.analysis.zone import ZoneAnalysis
    from bloqade.shuttle.arch import ArchSpec, Layout
    from bloqade.shuttle.dialects.filled.types import FilledGrid
    from bloqade.shuttle.passes.hint_zone import HintZone
    from gen import kernels
    traps = Grid.from_positions([0.0, 2.0, 4.0, 6.5], [0.0, 3.0, 6.0])
    aux = Grid.from_positions([20.0, 21.0, 22.0], [1.0, 2.0, 3.0, 4.0])
    L = Layout({"traps": traps, "aux": aux, "fz": FilledGrid.vacate(Grid.from_positions([50.0, 51.0], [0.0, 1.0]), [(0, 0)])}, {"traps"}, {"traps"}, {"aux"},
               special_grid={"park": Grid.from_positions([-4.0, -2.0], [0.5, 1.5])})
    S = ArchSpec(layout=L, float_constants={"pitch": 2.5, "origin": 0.0}, int_constants={"rows": 3, "code_size": 7, "zero": 0})
    # "that grid": the same sites in the same order, filled or not alike, the same vacancies (a complete view of a zone IS that grid)
    same = lambda a, b: hasattr(a, "vacancies") == hasattr(b, "vacancies") and tuple(a.shape) == tuple(b.shape) and list(a.positions) == list(b.positions) \
        and sorted(getattr(a, "vacancies", ())) == sorted(getattr(b, "vacancies", ()))
    probes = {"zone traps": traps, "zone aux": aux, "zone fz": L.static_traps["fz"], "special park": L.special_grid["park"],
              "filled copy of traps": FilledGrid.vacate(traps, [(0, 0)]), "filled copy of traps, no vacancy": FilledGrid.vacate(traps, []),
              "filled copy of aux": FilledGrid.vacate(aux, [(1, 1), (2, 3)]), "plain grid under fz": L.static_traps["fz"].parent,
              "fz with another vacancy": FilledGrid.vacate(L.static_traps["fz"], [(1, 1)]), "view of traps": traps[0:2, 0:2], "full view of traps": traps[0:4, 0:3],
              "shifted traps": traps.shift(1.0, 0.0), "equal grid built again": Grid.from_positions([0.0, 2.0, 4.0, 6.5], [0.0, 3.0, 6.0])}

    def ask(when):
        out = {}
        for name, g in probes.items():
            zid = L.get_zone_id(g)
            out[name] = zid
            ctx.evaluations += 1
            if zid is not None:
                back = [t[zid] for t in (L.static_traps, L.special_grid) if zid in t]
                if not any(same(b, g) for b in back):
                    ctx.fail({"kind": "zone-index", "layout": "index asked about foreign grids", "probe": name, "lookup": zid, "when": when},
                             {"index_after_analyses": True, "probe": name, "when": when},
                             f"{when}: get_zone_id({name}) = {zid!r}, but zone {zid!r} is not that grid")
        return out
    before = ask("before any analysis")
    describe = lambda g: (type(g).__name__, tuple(g.shape), tuple(g.positions)[:64], tuple(sorted(getattr(g, "vacancies", ()))))
    tables = lambda: {"static_traps": [(k, describe(v)) for k, v in L.static_traps.items()], "special_grid": [(k, describe(v)) for k, v in L.special_grid.items()],
                      "fillable": sorted(L.fillable), "has_cz": sorted(L.has_cz), "has_local": sorted(L.has_local),
                      "floats": sorted(S.float_constants.items()), "ints": sorted(S.int_constants.items())}
    tables_before, hash_before = tables(), hash(S)
    twin = ArchSpec(layout=Layout(dict(L.static_traps), set(L.fillable), set(L.has_cz), set(L.has_local), special_grid=dict(L.special_grid)),
                    float_constants={"pitch": 2.5, "origin": 0.0}, int_constants={"rows": 3, "code_size": 7, "zero": 0})
    src = ('@move{DEC}\ndef main(c: bool):\n    z = spec.get_static_trap(zone_id="traps")\n    a = filled.vacate(z, [(0, 0)])\n    b = filled.vacate(spec.get_static_trap(zone_id="aux"), [(1, 1), (2, 3)])\n'
           '    f = spec.get_static_trap(zone_id="fz")\n    p = filled.get_parent(f)\n    v = z[0:2, 0:2]\n    w = grid.shift(z, 1.0, 0.0)\n'
           '    gate.local_rz(0.5, a)\n    gate.local_rz(0.5, b)\n    gate.local_rz(0.5, p)\n    gate.local_rz(0.5, v)\n    gate.local_rz(0.5, w)\n    gate.local_rz(0.5, filled.vacate(f, [(1, 1)]))\n    k = spec.get_special_grid(grid_id="park")\n    gate.global_rz(spec.get_float_constant(constant_id="pitch") * spec.get_int_constant(constant_id="code_size"))\n    gate.local_rz(0.5, k)\n    gate.local_rz(0.5, k[0:1, :])\n')
    try:
        for dec in ("", "(arch_spec=S)", "(arch_spec=S, aggressive=True)"):
            m = kernels.define(src.replace("{DEC}", dec), S=S)["main"]
            HintZone(m.dialects, arch_spec=S)(m)
            ZoneAnalysis(m.dialects, arch_spec=S).run_analysis(m)
            from vcommon import events
            events.run_events(m, (True,), S, plain="arch_spec" in dec)
            # the library's own replaying interpreter draws the zones of the spec it is given: a reader too
            from vcommon import stubs
            stubs.install_matplotlib_stubs()
            from bloqade.shuttle.visualizer import PathVisualizer
            from bloqade.shuttle.visualizer.renderers.interface import RendererInterface

            class _Quiet(RendererInterface):
                def render_traps(self, traps, zone_id): pass
                def render_path(self, pth): pass
                def set_title(self, title): pass
                def show(self): pass
                def clear_paths(self): pass
            PathVisualizer(m.dialects, arch_spec=S, renderer=_Quiet()).run(m, (True,), {})
    except Exception as e:
        ctx.obligation("the analyses run on a kernel over the probed layout", False, f"{type(e).__name__}: {e}"[:200])
    after = ask("after HintZone / ZoneAnalysis / execution used the layout")
    # the analyses are readers: the tables, the value and the hash of the spec they were given are what they were, the spec still equals a
    # spec built from the same tables, and its tables still pass the constructor (no grid under two names)
    ctx.evaluations += 3
    tables_after = tables()
    changed = [k for k in tables_before if tables_before[k] != tables_after[k]]
    if changed:
        ctx.fail({"kind": "spec-changed-by-analysis", "layout": "index asked about foreign grids", "tables": ",".join(changed)},
                 {"index_after_analyses": True, "when": "tables"},
                 f"HintZone / ZoneAnalysis / execution changed the layout they were given: {changed[0]} was {str(tables_before[changed[0]])[:120]} and is {str(tables_after[changed[0]])[:160]}")
    elif hash(S) != hash_before or S != twin or hash(S) != hash(twin):
        ctx.fail({"kind": "spec-changed-by-analysis", "layout": "index asked about foreign grids", "tables": "identity"},
                 {"index_after_analyses": True, "when": "identity"},
                 f"after the analyses the spec no longer equals / hashes like a spec built from the same tables (hash before {hash_before}, now {hash(S)}, twin {hash(twin)}, equal: {S == twin})")
    else:
        ctx.nt(("index-probe", "tables and identity unchanged"))
    try:
        Layout(dict(L.static_traps), set(L.fillable), set(L.has_cz), set(L.has_local), special_grid=dict(L.special_grid))
    except Exception as e:
        ctx.fail({"kind": "spec-changed-by-analysis", "layout": "index asked about foreign grids", "tables": "constructor"},
                 {"index_after_analyses": True, "when": "constructor"},
                 f"after the analyses the layout's own tables are rejected by the Layout constructor: {type(e).__name__}: {str(e)[:120]}")
    for name in probes:
        if before[name] != after[name]:
            ctx.fail({"kind": "zone-index", "layout": "index asked about foreign grids", "probe": name, "lookup": after[name], "when": "changed by the analyses"},
                     {"index_after_analyses": True, "probe": name, "when": "changed"},
                     f"get_zone_id({name}) was {before[name]!r} before the package's analyses used the layout and is {after[name]!r} afterwards")
        else:
            ctx.nt(("index-probe", name))


def run(ctx):
    from bloqade.shuttle.arch import ArchSpec
    reflect_fields(ctx)
    source_reading(ctx)
    hash_collision_pairs(ctx)
    filled_zone_layouts(ctx)
    index_after_analyses(ctx)
    ctx.rule = ("layouts over a pool of 6 grids (incl. a view equal to its parent and a grid with an empty axis) and names a,b,c,s,t with every "
                "field varied independently (static/special tables incl. insertion order, three name sets): all pairs for ==/hash/model, all "
                "comparable triples for transitivity; constructor acceptance, get_zone_id of every pool grid, bounding_box; every layout returned "
                "by the library builders; non-trivial = distinct pairs of constructed layouts that differ in at most one field")
    space = layouts_space(ctx.rng, ctx.pick(70, 400))
    built = []
    cases_build = []
    for args in space:
        L, err = make_layout(args)
        ctx.evaluations += 1
        cases_build.append((args, L))
        ctx.hist("constructor", "accepted" if L is not None else "rejected:duplicate grid")
        if L is not None:
            built.append((args, L))
            oracle_layout(ctx, L, args, "generated layout " + str(sorted(args[0])) + str(sorted(args[4])))
    # --- pairs: ==, hash, laws ---
    n = len(built)
    eq = [[built[i][1] == built[j][1] for j in range(n)] for i in range(n)]
    pair_lines = []
    for i in range(n):
        for j in range(n):
            a, b = built[i], built[j]
            ctx.evaluations += 1
            same_fields = [dict_eq(a[0][k], b[0][k]) for k in range(5)]
            rep = {"a": repr(a[0]), "b": repr(b[0])}
            if eq[i][j] != all(same_fields):
                bad = [LF[k] for k in range(5) if not same_fields[k]]
                ctx.fail({"kind": "eq-vs-fields", "differs_in": bad, "eq": eq[i][j]}, rep,
                         f"layouts differing in {bad} compare {'equal' if eq[i][j] else 'unequal'}")
            if eq[i][j] and hash(a[1]) != hash(b[1]):
                ctx.fail({"kind": "eq-but-hash-differs", "differs_in": [LF[k] for k in range(5) if not same_fields[k]]}, rep,
                         "equal layouts hash differently")
            if eq[i][j] != eq[j][i]:
                ctx.fail({"kind": "eq-not-symmetric"}, rep, "== is not symmetric")
            if sum(same_fields) >= 4 and i != j:
                ctx.nt((i, j))
        if not eq[i][i]:
            ctx.fail({"kind": "eq-not-reflexive"}, {"a": repr(built[i][0])}, "== is not reflexive")
    for i in range(n):
        for j in range(n):
            if eq[i][j]:
                for k in range(n):
                    if eq[j][k] and not eq[i][k]:
                        ctx.fail({"kind": "eq-not-transitive"}, {"a": repr(built[i][0]), "b": repr(built[j][0]), "c": repr(built[k][0])},
                                 "== is not transitive")
    # layouts extended in place after construction (what gemini.logical.get_spec does to the base spec): still equal objects hash equally
    P = pool()
    for extra_static, extra_cz, extra_fill in (({"b": P[2]}, set(), set()), ({}, {"a"}, set()), ({"b": P[3]}, {"b"}, {"a"}), ({}, set(), {"a"})):
        direct, _ = make_layout(({"a": P[0], **extra_static}, set(extra_fill), set(extra_cz), set(), {}))
        grown, _ = make_layout(({"a": P[0]}, set(), set(), set(), {}))
        if direct is None or grown is None:
            continue
        grown.static_traps.update(extra_static)
        grown.has_cz.update(extra_cz)
        grown.fillable.update(extra_fill)
        ctx.evaluations += 1
        rep = {"a": "Layout built directly", "b": "equal Layout reached by extending the tables in place", "extra": [sorted(extra_static), sorted(extra_cz), sorted(extra_fill)]}
        if not (direct == grown):
            ctx.fail({"kind": "eq-vs-fields", "case": "extended in place"}, rep, "a layout extended in place differs from the layout built directly with the same five tables")
        elif hash(direct) != hash(grown):
            ctx.fail({"kind": "eq-but-hash-differs", "case": "extended in place"}, rep, "a layout extended in place equals the directly built one but hashes differently")
        sa, sb = ArchSpec(layout=direct), ArchSpec(layout=grown)
        if sa == sb and hash(sa) != hash(sb):
            ctx.fail({"kind": "archspec-eq-hash", "case": "extended in place"}, rep, "equal ArchSpecs (one with a layout extended in place) hash differently")
    # ArchSpec level
    some = built[: min(12, n)]
    specs = [ArchSpec(layout=L, float_constants=fc, int_constants=ic) for _, L in some
             for fc in ({}, {"x": 1.0}, {"x": 2.0}, {"x": 1.0 * (1 + 0.6e-9)}, {"x": 1.0 * (1 + 1.2e-9)}, {"x": 1.0, "y": 0.5}, {"y": 0.5, "x": 1.0}, {"y": 0.5, "x": 1.0, "z": -2.0}, {"z": -2.0, "x": 1.0, "y": 0.5})
             for ic in ({}, {"n": 1}, {"n": 1, "m": 2, "k": 0}, {"k": 0, "m": 2, "n": 1})]
    # tables filled after construction (the way gemini.logical.get_spec extends a base spec)
    for _, L in some[:4]:
        a = ArchSpec(layout=L, float_constants={"x": 1.0}, int_constants={"n": 1})
        a.float_constants.update({"y": 0.5, "z": -2.0}); a.int_constants.update({"m": 2})
        b = ArchSpec(layout=L, float_constants={"z": -2.0}, int_constants={"m": 2})
        b.float_constants.update({"y": 0.5, "x": 1.0}); b.int_constants.update({"n": 1})
        specs += [a, b]
    for s1, s2 in itertools.product(specs, repeat=2):
        ctx.evaluations += 1
        want = (s1.layout == s2.layout) and s1.float_constants == s2.float_constants and s1.int_constants == s2.int_constants
        if (s1 == s2) != want:
            ctx.fail({"kind": "archspec-eq"}, {"a": repr(s1)[:300], "b": repr(s2)[:300]}, "ArchSpec == does not compare layout and both constant tables")
        if s1 == s2 and hash(s1) != hash(s2):
            ctx.fail({"kind": "archspec-eq-hash"}, {"a": repr(s1)[:300]}, "equal ArchSpecs hash differently")
    # --- Coq: constructor, index, bbox, pairwise eq ---
    P = pool()
    lay_terms = [layout_coq(*args) for args, _ in cases_build]
    body = COQ_IMPORT + f"Definition pool : list gridv := {clist([grid_coq(g) for g in P])}.\n"
    body += ("Definition row (l : layout) : string :=\n"
             "  match build_index l with\n"
             "  | Err _ => \"REJECT\"%string\n"
             "  | Ok ix => (sep_by \",\" (map (fun g => show_option (fun s => s) (get_zone_id ix g)) pool) ++ \" | \" ++ show_bbox (bounding_box l))%string\n"
             "  end.\n")
    chunks = [list(range(i, min(i + 60, len(lay_terms)))) for i in range(0, len(lay_terms), 60)]
    bodies = [(f"lay_{k}", body + "Eval vm_compute in (lines (map row %s))." % clist([lay_terms[i] for i in ch])) for k, ch in enumerate(chunks)]
    mism = []
    for ch, (ok, vals, log) in zip(chunks, coqrun.eval_many(ctx.bdir, bodies)):
        if not ok or len(vals) != 1 or len(vals[0]) != len(ch):
            ctx.obligation("coqc layout file evaluates", False, log[-800:])
            continue
        for i, line in zip(ch, vals[0]):
            args, L = cases_build[i]
            if L is None:
                want = "REJECT"
            else:
                ids = ",".join("None" if L.get_zone_id(g) is None else f"Some({L.get_zone_id(g)})" for g in P)
                try:
                    bb = " ".join(fq(v) for v in L.bounding_box())
                except ValueError:
                    bb = "ERR"
                want = ids + " | " + bb
            if line != want:
                mism.append({"layout": repr(args)[:300], "model": line, "impl": want})
    ctx.correspondence("constructor acceptance, get_zone_id of every pool grid, bounding_box vs Model.Arch", len(lay_terms), mism)
    bl = [layout_coq(*args) for args, _ in built]
    body = COQ_IMPORT + f"Definition L : list layout := {clist(bl)}.\n"
    rows = list(range(n))
    shards = [rows[i::8] for i in range(8) if rows[i::8]]
    bodies = [(f"eq_{k}", body + "Eval vm_compute in (lines (map (fun i => String.concat \"\" (map (fun b => show_bool (layout_eqb (nth i L (mkLayout [] [] [] [] [])) b)) L)) %s))." %
               clist([cnat(i) for i in sh])) for k, sh in enumerate(shards)]
    mism = []
    for sh, (ok, vals, log) in zip(shards, coqrun.eval_many(ctx.bdir, bodies)):
        if not ok or len(vals) != 1 or len(vals[0]) != len(sh):
            ctx.obligation("coqc eq file evaluates", False, log[-800:])
            continue
        for i, line in zip(sh, vals[0]):
            want = "".join("T" if e else "F" for e in eq[i])
            if line != want:
                j = next(c for c in range(n) if line[c:c + 1] != want[c])
                mism.append({"a": repr(built[i][0])[:200], "b": repr(built[j][0])[:200], "model": line[j], "impl": want[j]})
    ctx.correspondence("layout_eqb (all pairs) vs Layout.__eq__", n * n, mism)
    ctx.sample({"layout": repr(built[0][0])[:300], "zone ids of pool grids": [built[0][1].get_zone_id(g) for g in P]})
    builders(ctx)
    ctx.explanation = ("Theorems about Model.Arch: == over the reflected field list is an equivalence, distinguishes any differing field, equal "
                       "layouts agree on every hashed field; the index built by the constructor maps every table grid to a name that maps back "
                       "and exists iff no two names share a grid; the bounding box is tight. Field lists are reflected behaviourally each run.")


def builders(ctx):
    """every layout the library builders return"""
    import warnings
    warnings.simplefilter("ignore")
    from bloqade.shuttle.stdlib.layouts import single_col_zone, two_col_zone
    from bloqade.shuttle.stdlib.layouts.gemini import base_spec, logical
    from bloqade.shuttle.stdlib import spec as old_spec
    R = range(1, ctx.pick(4, 7))
    held = []          # (label, spec, snapshot taken when it was returned)

    def snap(S):
        L = S.layout
        return (hash(L), hash(S), tuple(L.bounding_box()), sorted((k, repr(g)) for k, g in list(L.static_traps.items()) + list(L.special_grid.items())))

    def take(S, label):
        held.append((label, S, snap(S)))
        oracle_layout(ctx, S.layout, None, label)
    for nx, ny in itertools.product(R, R):
        for sp in (0.5, 2.0, 10.0):
            take(single_col_zone.get_spec(nx, ny, sp), f"single_col_zone.get_spec({nx},{ny},{sp})")
            take(old_spec.single_zone_spec(nx, ny, sp), f"stdlib.spec.single_zone_spec({nx},{ny},{sp})")
            for gs in (1.0, 2.5):
                take(two_col_zone.get_spec(nx, ny, sp, gs), f"two_col_zone.get_spec({nx},{ny},{sp},{gs})")
                ctx.evaluations += 3
                ctx.nt(("builder", nx, ny, sp, gs))
    # every returned spec is still what it was after all the later calls of the builders (a spec is a value: later calls must not reach it),
    # and specs built from different requests stay different
    for label, S, before in held:
        ctx.evaluations += 1
        if snap(S) != before:
            ctx.fail({"kind": "zone-index", "layout": label.split("(")[0], "history": "builder called again with other arguments", "lookup": "changed"}, {"layout": label, "history": "all builder calls of this check"},
                     f"{label}: the returned spec changed after later calls of the builders (hash / bounding box / zone tables differ from when it was returned)")
        else:
            oracle_layout(ctx, S.layout, None, label + " [re-examined after all later builder calls]")
    by_builder = {}
    for label, S, before in held:
        by_builder.setdefault(label.split("(")[0], []).append((label, S, before))
    for b, lst in by_builder.items():
        for (l1, s1, t1), (l2, s2, t2) in itertools.combinations(lst[:40], 2):
            ctx.evaluations += 1
            # (different requests may describe the same geometry - a 1 x 1 zone has no spacing; only specs whose zone tables differ count)
            if t1[3] != t2[3] and (s1 == s2 or s1.layout == s2.layout):
                ctx.fail({"kind": "eq-vs-fields", "layout": b, "case": "different requests"}, {"a": l1, "b": l2}, f"{l1} and {l2} compare equal")
    oracle_layout(ctx, base_spec.get_base_spec().layout, None, "gemini.base_spec.get_base_spec()")
    oracle_layout(ctx, logical.get_spec().layout, None, "gemini.logical.get_spec()")
    # a builder's result must not depend on which builders ran before it in this process
    oracle_layout(ctx, base_spec.get_base_spec().layout, None, "gemini.base_spec.get_base_spec() [after logical.get_spec()]")
    oracle_layout(ctx, single_col_zone.get_spec(2, 2, 2.0).layout, None, "single_col_zone.get_spec(2,2,2.0) [after the gemini builders]")
    ctx.evaluations += 4
    # a returned spec EXTENDED IN PLACE by its holder (what gemini.logical.get_spec does to the base spec), then the builder called again with
    # the same arguments: the second result is the layout those arguments denote - no table shared with the first result
    from bloqade.geometry.dialects.grid import Grid
    extra = Grid.from_positions([-7.0, -5.0], [1.0])
    for b, args, label in ((single_col_zone.get_spec, (3, 2, 2.0), "single_col_zone.get_spec(3,2,2.0)"), (old_spec.single_zone_spec, (3, 2, 2.0), "stdlib.spec.single_zone_spec(3,2,2.0)"),
                           (two_col_zone.get_spec, (3, 2, 2.0, 1.0), "two_col_zone.get_spec(3,2,2.0,1.0)"), (base_spec.get_base_spec, (), "gemini.base_spec.get_base_spec()"),
                           (single_col_zone.get_spec, (1, 4, 10.0), "single_col_zone.get_spec(1,4,10.0)")):
        first = b(*args)
        before = snap(first)
        first.layout.static_traps.update({"verif_extra": extra})
        first.layout.fillable.add("verif_extra")
        again = b(*args)
        ctx.evaluations += 1
        if snap(again)[2:] != before[2:] or "verif_extra" in again.layout.static_traps or "verif_extra" in again.layout.fillable or again.layout is first.layout:
            ctx.fail({"kind": "zone-index", "layout": label.split("(")[0], "history": "earlier result extended in place, builder called again", "lookup": "shared tables"},
                     {"layout": label, "history": "first = builder(args); first.layout.static_traps.update(...); builder(args)"},
                     f"{label}: called again after its first result was extended in place, the builder returns a layout with zones {sorted(again.layout.static_traps)} "
                     f"(get_zone_id of the foreign zone: {again.layout.get_zone_id(extra) if 'verif_extra' in again.layout.static_traps else 'n/a'}) instead of the layout its arguments denote")
        else:
            oracle_layout(ctx, again.layout, None, label + " [called again after an earlier result was extended in place]")
            ctx.nt(("builder-again", label))


def replay(data):
    inp = data["input"]

    class C:
        evaluations = 0
        def __init__(s): s.fails = []
        def fail(s, sig, rep, what): s.fails.append(what)
        def nt(s, *a): pass
        def pick(s, a, b): return b
    c = C()
    c.count = lambda *a: None
    if inp.get("index_after_analyses"):
        c.obligation = lambda *a: None
        index_after_analyses(c)
        hit = [f for f in c.fails if inp.get("probe", "") in f]
        return bool(hit), "; ".join(hit[:2])[:300] or "the index only names grids that are its zones"
    if "filled_zone_layouts" in inp:
        filled_zone_layouts(c)
        a, b = inp["filled_zone_layouts"]
        hit = [f for f in c.fails if a in f and b in f]
        return bool(hit), "; ".join(hit[:2])[:300] or "coherent"
    if "layout" in inp:
        builders(c)
        hit = [f for f in c.fails if f.startswith(inp["layout"].split("(")[0])]
        return bool(hit), "; ".join(hit[:3]) or "builders coherent"
    if "field" in inp:
        class X:
            extra = {}
            def __init__(s): s.fails = []
            def fail(s, sig, rep, what): s.fails.append(what)
            def obligation(s, *a): pass
            bdir = "/tmp"
        return True, "re-run bin/check C13 (reflected field table): " + str(data.get("what"))
    return True, "re-run bin/check C13: " + str(data.get("what"))
