"""C01 - tracing reproduces the reference AOD semantics."""
import itertools

from vcommon import coqrun
from vcommon.coqrun import clist, cnat

from gen import kernels, tweezer_prog
from props import tracer_common as tc

COQ_IMPORT = "From BS Require Import Core.Show Core.Base Model.Tracer.\n"

# ---- the exhaustive op-interpreter kernel ----
ALPHABET = ["set ga", "set gb", "set gc", "move ga", "move gb", "move gc",
            "on S S", "on S L", "on L S", "on L L", "off S S", "off S L", "off L S", "off L L"]
SEL = {"S": "slice(None, None, 2)", "L": "[1, 0]"}

INTERP_SRC = """
@tweezer
def main(codes: ilist.IList[int, Any]):
    ga = grid.from_positions([0.0, 1.0], [0.0])
    gb = grid.shift(ga, 0.0, 2.0)
    gc = grid.from_positions([0.0], [0.0, 1.0])
    for c in codes:
""" + "".join(
    f"        if c == {i}:\n            " +
    (f"action.set_loc({a.split()[1]})" if a.startswith("set") else
     f"action.move({a.split()[1]})" if a.startswith("move") else
     f"action.turn_{a.split()[0]}({SEL[a.split()[1]]}, {SEL[a.split()[2]]})") + "\n"
    for i, a in enumerate(ALPHABET))

COQ_ALPHABET = """
Definition ga := mkgrid 1 2 1. Definition gb := mkgrid 2 2 1. Definition gc := mkgrid 3 1 2.
Definition sS := SSlice None None (Some 2%Z). Definition sL := SList [1%Z; 0%Z].
Definition alphabet : list op :=
  [OSet ga; OSet gb; OSet gc; OMove ga; OMove gb; OMove gc;
   OSwitch On sS sS; OSwitch On sS sL; OSwitch On sL sS; OSwitch On sL sL;
   OSwitch Off sS sS; OSwitch Off sS sL; OSwitch Off sL sS; OSwitch Off sL sL].
Fixpoint seqs (n : nat) : list (list op) :=
  match n with
  | O => [[]]
  | S k => flat_map (fun o => map (cons o) (seqs k)) alphabet
  end.
"""


def reflect_tables(ctx, S):
    """behavioural tables: (a) literal operands -> statement class left by the pipeline -> action
    class; (b) each desugared statement class with run-time values of every form."""
    from kirin.dialects import ilist
    lit = {"S": "slice(0, 2)", "L": "[0, 1]"}
    ann = {"S": "slice", "L": "ilist.IList[int, Any]"}
    val = {"S": slice(0, 2), "L": ilist.IList([0, 1])}
    rows_a, rows_b = [], []
    for k in ("on", "off"):
        for fx in "SL":
            for fy in "SL":
                src = (f"@tweezer\ndef main():\n    action.set_loc(grid.from_positions([0.0, 1.0], [0.0, 1.0]))\n"
                       f"    action.turn_{k}({lit[fx]}, {lit[fy]})\n")
                m = kernels.define(src)["main"]
                stmts = [type(s).__name__ for s in m.callable_region.walk() if type(s).__module__.endswith("action.stmts")]
                sw = [s for s in stmts if s.startswith("Turn")]
                st, r = tc.run_impl(m, (), S)
                ap = tc.abstract_path(r) if st == "ok" else []
                got = [a for a in ap if a[0] == "S"]
                rows_a.append((k, fx, fy, sw[0] if len(sw) == 1 else "?", got[0][1:4] if len(got) == 1 else ("?", "?", "?")))
                # (b) typed parameters give the statement class, arguments give the values
                src = (f"@tweezer\ndef main(sx: {ann[fx]}, sy: {ann[fy]}):\n"
                       f"    action.set_loc(grid.from_positions([0.0, 1.0], [0.0, 1.0]))\n    action.turn_{k}(sx, sy)\n")
                m = kernels.define(src)["main"]
                sw = [type(s).__name__ for s in m.callable_region.walk() if type(s).__name__.startswith("Turn")]
                for vx in "SL":
                    for vy in "SL":
                        st, r = tc.run_impl(m, (val[vx], val[vy]), S)
                        got = [a for a in tc.abstract_path(r) if a[0] == "S"] if st == "ok" else []
                        rows_b.append((sw[0] if len(sw) == 1 else "?", k, vx, vy,
                                       got[0][1:4] if len(got) == 1 else ("?", "?", "?")))
    cf = lambda c: {"S": "FSlice", "L": "FList", "?": "FList"}[c]
    ck = lambda c: {"on": "On", "off": "Off"}.get(c, "On")
    body = coqrun.HEADER + COQ_IMPORT + "Definition onoff_eqb (a b : onoff) := match a, b with On, On | Off, Off => true | _, _ => false end.\n"
    body += "Definition form_eqb (a b : form) := match a, b with FList, FList | FSlice, FSlice => true | _, _ => false end.\n"
    body += "Definition same (a b : onoff * form * form) := match a, b with (k,x,y), (k',x',y') => onoff_eqb k k' && form_eqb x x' && form_eqb y y' end.\n"
    body += "(* literal operands (kind, x form, y form) -> class of the action the tracer emitted *)\n"
    body += "Definition literal_table : list ((onoff * form * form) * (onoff * form * form)) :=\n  " + clist(
        [f"(({ck(k)},{cf(fx)},{cf(fy)}), ({ck(g[0])},{cf(g[1])},{cf(g[2])}))" for k, fx, fy, _, g in rows_a]) + ".\n"
    body += "(* desugared statement with run-time values of forms (vx, vy) -> class of the emitted action *)\n"
    body += "Definition runtime_table : list ((onoff * form * form) * (onoff * form * form)) :=\n  " + clist(
        [f"(({ck(k)},{cf(vx)},{cf(vy)}), ({ck(g[0])},{cf(g[1])},{cf(g[2])}))" for _, k, vx, vy, g in rows_b]) + ".\n"
    body += "Lemma literal_table_ok : forallb (fun e => same (fst e) (snd e)) literal_table = true.\nProof. vm_compute. reflexivity. Qed.\n"
    body += "Lemma runtime_table_ok : forallb (fun e => same (fst e) (snd e)) runtime_table = true.\nProof. vm_compute. reflexivity. Qed.\n"
    body += "Lemma tables_complete : List.length literal_table = 8%nat /\\ List.length runtime_table = 32%nat.\nProof. split; reflexivity. Qed.\n"
    ok, log = coqrun.compile_lemma_file(ctx.bdir, "Gen_C01", body)
    q = all("?" not in (r[3],) + tuple(r[4]) for r in rows_a)
    ctx.obligation("reflected tables extracted without unknown entries", q, str([r for r in rows_a if "?" in (r[3],) + tuple(r[4])][:3]))
    ctx.obligation("Gen_C01: literal_table_ok / runtime_table_ok (recorded class = kind and forms of the values)", ok, log[-600:])
    ctx.extra["desugar_table"] = [f"turn_{k}({fx},{fy}) -> {sn} -> {g}" for k, fx, fy, sn, g in rows_a]
    bad = [r for r in rows_b if tuple(r[4]) != (r[1], r[2], r[3])]
    for sn, k, vx, vy, g in bad[:4]:
        ctx.fail({"site": "construct_intensity_actions", "stmt": sn, "values": [vx, vy], "recorded": list(g)},
                 {"kind": "typed-kernel", "stmt": sn, "k": k, "values": [vx, vy]},
                 f"{sn} executed with x/y selectors of form {vx}/{vy} recorded class forms {g[1]}/{g[2]}")
    return ok


def compare_case(ctx, label, src, args, S, method, gt_cases, replay_extra=None, spec_method=None):
    """run one (kernel, args) on native reference and implementation; oracle immediately;
    queue the op list for the Coq model."""
    nat = tc.run_native(src, "main", args, S)
    st, r = tc.run_impl(method, args, S)
    ctx.evaluations += 1
    if nat[0] == "err":
        ctx.hist("outcome", "source-level error (index/assert/lookup)")
        if st == "ok":
            ctx.fail({"kind": "path-despite-error", "src": src, "args": repr(args)},
                     {"src": src, "args": repr(args)}, f"kernel whose source evaluation raises {nat[2]} yielded a path")
        return
    ops = nat[1]
    if not tc.ops_in_domain(ops):
        ctx.hist("outcome", "selector value outside domain")
        return
    ref = tc.ref_trace(ops)
    gt = tc.GridTable()
    ref_text = "ERR" if ref is None else tc.path_text(ref, gt)
    if st == "ok":
        try:
            impl_text = tc.path_text(tc.abstract_path(r), gt)
        except Exception as e:
            impl_text = "?unrenderable " + str(e)
    else:
        impl_text = "ERR"
    ctx.hist("outcome", "error (AOD misuse)" if ref is None else "path")
    ctx.hist("ops_len", min(len(ops), 30) // 5 * 5)
    if ref is not None and len(ops) >= 2:
        ctx.nt(ref_text)
    gt_cases.append((label, tc.ops_coq(ops, gt), ref_text, impl_text, src, args))
    if impl_text != ref_text:
        sig = {"kind": "trace-differs", "ops": [o[0] for o in ops][:12], "impl": impl_text[:200], "ref": ref_text[:200]}
        ctx.fail(sig, {"src": src, "args": repr(args), "expected": ref_text, "got": impl_text},
                 f"trace differs from the reference AOD model: expected {ref_text[:160]} got {impl_text[:160]}")
    if spec_method is not None:
        # the same kernel compiled with the spec (@tweezer(arch_spec=S)) and traced by a tracer that knows NO spec: same reference
        from bloqade.shuttle.arch import ArchSpec
        ctx.evaluations += 1
        if isinstance(spec_method, Exception):
            st2, text2 = "err", "ERR"
        else:
            st2, r2 = tc.run_impl(spec_method, args, ArchSpec())
            try:
                text2 = tc.path_text(tc.abstract_path(r2), gt) if st2 == "ok" else "ERR"
            except Exception as e:
                text2 = "?unrenderable " + str(e)
        ctx.hist("compiled-with-spec route", "same as the reference" if text2 == ref_text else "DIFFERS")
        if text2 != ref_text:
            ctx.fail({"kind": "trace-differs", "route": "compiled with arch_spec, traced without a spec", "ops": [o[0] for o in ops][:12]},
                     {"src": src, "args": repr(args), "expected": ref_text, "got": text2, "route": "arch_spec"},
                     f"compiled with @tweezer(arch_spec=S) and traced without a spec, the trace differs from the reference AOD model: "
                     f"expected {ref_text[:140]} got {text2[:140]}" + (f" ({spec_method})"[:120] if isinstance(spec_method, Exception) else ""))


def spec_route_src(src):
    """the entry kernel decorated with the spec; helper kernels stay as they are (the injection pass has to reach them)"""
    k = src.rindex("@tweezer\ndef main(")
    return src[:k] + "@tweezer(arch_spec=S)\ndef main(" + src[k + len("@tweezer\ndef main("):]


def coq_eval_cases(ctx, name, cases):
    """Coq evaluates rtrace on every shipped op list; compare with the Python twin and the impl."""
    chunks = [cases[i:i + 150] for i in range(0, len(cases), 150)]
    bodies = [(f"{name}_{k}", COQ_IMPORT + "Eval vm_compute in (lines (map (fun ops => show_trace (rtrace ops)) %s))." %
               clist([c[1] for c in ch])) for k, ch in enumerate(chunks)]
    mism, twin = [], []
    for ch, (ok, vals, log) in zip(chunks, coqrun.eval_many(ctx.bdir, bodies)):
        if not ok or len(vals) != 1 or len(vals[0]) != len(ch):
            ctx.obligation(f"coqc {name} evaluates", False, log[-800:])
            continue
        for c, line in zip(ch, vals[0]):
            if line != c[2]:
                twin.append({"case": c[0], "coq_rtrace": line[:200], "python_ref": c[2][:200]})
            if line != c[3]:
                mism.append({"case": c[0], "model": line[:300], "impl": c[3][:300], "src": c[4], "args": repr(c[5])})
    ctx.correspondence(f"{name}: Coq rtrace = Python twin of the reference", len(cases), twin)
    ctx.correspondence(f"{name}: Coq rtrace/itrace vs TraceInterpreter.run_trace", len(cases), mism)


def exhaustive(ctx, S, maxlen):
    from kirin.dialects import ilist
    m = kernels.define(INTERP_SRC)["main"]
    # Coq enumerates the same sequences in the same (lexicographic) order
    bodies = []
    for n in range(0, maxlen + 1):
        if n <= 2:
            bodies.append((f"exh_{n}", (n, None), COQ_IMPORT + COQ_ALPHABET +
                           f"Eval vm_compute in (lines (map (fun ops => show_trace (rtrace ops)) (seqs {cnat(n)})))."))
        else:
            for first in range(len(ALPHABET)):
                bodies.append((f"exh_{n}_{first}", (n, first), COQ_IMPORT + COQ_ALPHABET +
                               f"Eval vm_compute in (lines (map (fun ops => show_trace (rtrace (nth {cnat(first)} alphabet (OSet ga) :: ops))) (seqs {cnat(n - 1)})))."))
    res = coqrun.eval_many(ctx.bdir, [(n, b) for n, _, b in bodies])
    gids = {"ga": 1, "gb": 2, "gc": 3}
    ti = tc.new_tracer(S)
    mism, total = [], 0
    nA = len(ALPHABET)
    for (name, (n, first), _), (ok, vals, log) in zip(bodies, res):
        if not ok or len(vals) != 1:
            ctx.obligation(f"coqc {name} evaluates", False, log[-800:])
            continue
        if first is None:
            seqs = list(itertools.product(range(nA), repeat=n))
        else:
            seqs = [(first,) + t for t in itertools.product(range(nA), repeat=n - 1)]
        lines = vals[0]
        if len(lines) != len(seqs):
            ctx.obligation(f"{name}: line count", False, f"{len(lines)} vs {len(seqs)}")
            continue
        for codes, line in zip(seqs, lines):
            total += 1
            st, r = tc.run_impl(m, (ilist.IList(list(codes)),), tracer=ti)
            if st == "ok":
                gt = tc.GridTable()
                # fixed ids: ga, gb, gc are distinguishable by value
                ap = tc.abstract_path(r)
                txt = tc.path_text(ap, _FixedIds())
            else:
                txt = "ERR"
            if txt != line:
                mism.append({"codes": [ALPHABET[c] for c in codes], "model": line, "impl": txt})
                if len(mism) <= 3:
                    ops = [ALPHABET[c] for c in codes]
                    ctx.fail({"kind": "exhaustive-seq", "ops": ops, "impl": txt, "ref": line},
                             {"src": INTERP_SRC, "args": repr(list(codes)), "expected": line, "got": txt},
                             f"op sequence {ops}: expected {line} got {txt}")
            elif line != "ERR" and n >= 2:
                ctx.nt(("seq", codes))
    ctx.evaluations += total
    ctx.count("exhaustive_sequences", total)
    ctx.correspondence(f"all op sequences of length <= {maxlen} over {nA} ops (one interpreter kernel)", total, mism)


class _FixedIds:
    def show(self, g):
        key = (tuple(g.x_positions), tuple(g.y_positions))
        return {((0.0, 1.0), (0.0,)): "g1", ((0.0, 1.0), (2.0,)): "g2", ((0.0,), (0.0, 1.0)): "g3"}.get(key, "g?")


HELPER_CHAIN_SRC = '''
@tweezer
def home_zone():
    return spec.get_static_trap(zone_id="traps")

@tweezer
def go_home():
    # no lookup in here: it only calls the helper that does the lookup
    action.set_loc(home_zone()[0:2, 0:1])

@tweezer{DEC}
def main(dx: float):
    go_home()
    action.turn_on(action.ALL, [0])
    action.move(grid.shift(home_zone()[0:2, 0:1], dx, spec.get_float_constant(constant_id="pitch")))
    action.turn_off([0, 1], action.ALL)
'''


def helper_chain_histories(ctx):
    """kernels that reach a spec lookup through a chain of shared helper kernels, compiled one after the other against different specs
    (and against none): each traces against ITS spec - the reference model resolves a lookup against the spec of the kernel that is traced"""
    from bloqade.geometry.dialects.grid import Grid
    from bloqade.shuttle.arch import ArchSpec, Layout
    SA = tweezer_prog.harness_spec()
    lay = Layout(static_traps={"traps": Grid.from_positions([100.0, 103.0, 105.0, 109.0], [50.0, 51.0, 52.0]), "aux": SA.layout.static_traps["aux"]},
                 fillable={"traps"}, has_cz={"traps"}, has_local={"aux"}, special_grid=dict(SA.layout.special_grid))
    SB = ArchSpec(layout=lay, float_constants={"pitch": 0.75, "dup": 1.5, "origin": 0.0}, int_constants=dict(SA.int_constants))
    specs = {"A": SA, "B": SB}
    helpers = {k: v for k, v in kernels.define(HELPER_CHAIN_SRC.replace("{DEC}", "")).items() if k in ("home_zone", "go_home")}
    main_src = HELPER_CHAIN_SRC[HELPER_CHAIN_SRC.index("@tweezer{DEC}"):]
    n = 0
    for hist in (("A", "B", "late:B", "A", "late:A"), ("late:B", "A", "late:B", "B")):
        for step, how in enumerate(hist):
            late = how.startswith("late:")
            X = specs[how.split(":")[-1]]
            ctx.evaluations += 1
            n += 1
            rep = {"chain_src": HELPER_CHAIN_SRC, "history": list(hist), "step": step}
            try:
                m = kernels.define(main_src.replace("{DEC}", "" if late else "(arch_spec=S)"), S=X, **helpers)["main"]
                st, r = tc.run_impl(m, (1.5,), X if late else ArchSpec())
            except Exception as e:
                st, r = "err", f"{type(e).__name__}: {e}"
            z = X.layout.static_traps["traps"][0:2, 0:1]
            moved = z.shift(1.5, X.float_constants["pitch"])
            want = [("W", [z]), ("S", "on", "S", "L"), ("W", [z, moved]), ("S", "off", "L", "S"), ("W", [moved])]
            got = [(a[0], a[1]) if a[0] == "W" else a[:4] for a in tc.abstract_path(r)] if st == "ok" else None
            if got != want:
                where = "-" if got is None else next((f"action {j}" for j in range(min(len(got), len(want))) if got[j] != want[j]), "length")
                ctx.fail({"kind": "helper-chain-history", "compiled": "at trace time" if late else "with arch_spec"}, rep,
                         f"step {step} of history {hist}: a kernel reaching its lookups through shared helpers, "
                         f"{'traced against' if late else 'compiled with'} spec {how.split(':')[-1]}, " +
                         (f"fails: {str(r)[:100]}" if got is None else f"does not trace the path of that spec (differs at {where})"))
            else:
                ctx.nt(("helper-chain", hist, step))
    ctx.count("helper-chain kernels compiled in histories over two specs", n)


NESTED_HELPER_SRC = '''
@tweezer
def cols():
    # an int constant whose name is ALSO a float constant of the spec
    return spec.get_int_constant(constant_id="dup")

@tweezer
def shifted(g, dy: float, dx: float):
    return grid.shift(g, dx, dy)

@tweezer
def hop(dx: float):
    # only ever called from inside a loop body / a branch arm; calls its own helper with keywords in another order than the signature
    z = spec.get_static_trap(zone_id="traps")
    action.move(shifted(dx=dx, g=z[0:2, 0:1], dy=spec.get_float_constant(constant_id="dup")))

@tweezer
def back():
    action.move(spec.get_static_trap(zone_id="traps")[0:2, 0:1])

@tweezer{DEC}
def main(c: bool, dx: float):
    action.set_loc(spec.get_static_trap(zone_id="traps")[0:2, 0:1])
    action.turn_on([spec.get_int_constant(constant_id="dup") - 2, 1], action.ALL)
    i = 0
    for i in range(cols()):
        hop(dx + 1.0 * i)
        if c:
            back()
    if c:
        hop(dx=dx)
        action.move(shifted(dy=0.25, dx=2.0 * dx, g=spec.get_static_trap(zone_id="traps")[0:2, 0:1]))
    else:
        action.turn_off(action.ALL, [spec.get_int_constant(constant_id="zero")])
    action.turn_off(action.ALL, action.ALL)
'''


def nested_helper_cases(ctx):
    """helper kernels with lookups that are called ONLY from loop bodies and branch arms, int constants whose name is also a float
    constant; traced with the spec, and compiled with the spec and traced without one, under two specs: always the reference of THAT spec"""
    from bloqade.geometry.dialects.grid import Grid
    from bloqade.shuttle.arch import ArchSpec, Layout
    SA = tweezer_prog.harness_spec()
    lay = Layout(static_traps={"traps": Grid.from_positions([100.0, 103.0, 105.0, 109.0], [50.0, 51.0, 52.0]), "aux": SA.layout.static_traps["aux"]},
                 fillable={"traps"}, has_cz={"traps"}, has_local={"aux"}, special_grid=dict(SA.layout.special_grid))
    SB = ArchSpec(layout=lay, float_constants={"pitch": 0.75, "dup": 3.5, "origin": 0.0}, int_constants={"rows": 3, "dup": 3, "zero": 0})
    n = 0
    plain_src = NESTED_HELPER_SRC.replace("{DEC}", "")
    for hist in (("A", "B", "A"), ("B", "A")):
        for step, name in enumerate(hist):
            X = {"A": SA, "B": SB}[name]
            for how in ("traced with the spec", "compiled with arch_spec"):
                for args in ((True, 0.5), (False, 1.25)):
                    ctx.evaluations += 1
                    n += 1
                    rep = {"nested_src": NESTED_HELPER_SRC, "history": list(hist), "step": step, "how": how, "args": list(args)}
                    nat = tc.run_native(plain_src, "main", args, X)
                    gt = tc.PosTable()
                    want = tc.path_text(tc.ref_trace(nat[1]), gt) if nat[0] == "ok" and tc.ref_trace(nat[1]) is not None else "ERR"
                    try:
                        if how == "traced with the spec":
                            st, r = tc.run_impl(kernels.define(plain_src)["main"], args, X)
                        else:
                            st, r = tc.run_impl(kernels.define(NESTED_HELPER_SRC.replace("{DEC}", "(arch_spec=S)"), S=X)["main"], args, ArchSpec())
                    except Exception as e:
                        st, r = "err", f"{type(e).__name__}: {e}"
                    got = tc.path_text(tc.abstract_path(r), gt) if st == "ok" else "ERR"
                    if want == "ERR":
                        ctx.obligation("the nested-helper kernel has a reference path", False, str(nat)[:200])
                    elif got != want:
                        ctx.fail({"kind": "nested-helper", "how": how}, rep,
                                 f"kernel whose helpers (with lookups) are only called inside a loop / a branch, {how} {name} (step {step} of {hist}), args {args}: "
                                 f"expected {want[:150]} got {got[:150]}" + (f" ({str(r)[:100]})" if st != "ok" else ""))
                    else:
                        ctx.nt(("nested-helper", name, how, args))
    ctx.count("nested-helper kernels (lookups only inside loops/branches, a name in both constant tables) on two routes under two specs", n)


FILLED_POS_SRC = '''
@tweezer
def lane(f, k: int):
    # a one-column lane of a filled grid: x and y index lists differ in length and content
    return grid.sub_grid(f, [k], [0, 1, 2])

@tweezer{DEC}
def main(k: int, dx: float, wrong: bool):
    z = spec.get_static_trap(zone_id="traps")
    f = filled.vacate(z, [(0, 0), (2, 1), (3, 2)])
    row = grid.sub_grid(f, [0, 2, 3], [1])
    action.set_loc(row)
    action.turn_on(action.ALL, [0])
    action.move(grid.shift(row, dx, 0.5))
    action.move(f[1:4, 2])
    if wrong:
        action.move(lane(f, k))
    action.move(filled.fill(z, [(1, 1)])[0:3, k])
    action.turn_off([0, 2], action.ALL)
    g = spec.get_static_trap(zone_id="fz")
    action.set_loc(lane(g, k))
    action.turn_on([0], [0, 2])
    action.move(grid.shift(g[k, 0:3], dx, dx))
    action.move(lane(filled.repeat(g, 2, 1, 10.0, 0.0), k + 2))
    action.move(grid.scale(lane(filled.vacate(g, [(k, 2)]), k), 2.0, 1.0))
'''


FILLED_LEN_SRC = '''
@tweezer{DEC}
def main(k: int, dx: float, wrong: bool):
    # loops driven by the NUMBER of columns / rows of a non-square filled grid that is not a constant (its coordinates are arguments)
    z = spec.get_static_trap(zone_id="traps")
    b = grid.from_positions([dx, dx + 1.0, dx + 3.0], [0.0, 2.0])
    f = filled.vacate(b, [(0, 0), (k, 1)])
    action.set_loc(f)
    action.turn_on(action.ALL, action.ALL)
    i = 0
    for i in range(len(grid.get_xpos(f))):
        action.move(grid.shift(f, 1.0 * i, 0.5))
    j = 0
    for j in range(len(grid.get_ypos(f))):
        action.move(grid.shift(f, 0.0, 1.0 + j))
    action.turn_off(action.ALL, [0])
    if wrong:
        action.move(z[0:2, 0:3])
    action.move(z[0:3, 0:2])
'''

FILLED_EMPTY_SRC = '''
@tweezer{DEC}
def main(k: int, dx: float, wrong: bool):
    # a filled grid over a grid with an EMPTY axis (no column at all): shape (0, 2)
    z = spec.get_static_trap(zone_id="traps")
    e = grid.from_positions([], [0.0, 1.0 + k])
    fe = filled.vacate(e, [])
    action.set_loc(fe)
    action.move(grid.shift(filled.get_parent(fe), 0.0, dx))
    action.move(filled.shift(fe, 1.0, dx))
    if wrong:
        action.move(z[0:1, 0:2])
    action.move(e)
'''


def filled_position_cases(ctx):
    for src_t in (FILLED_POS_SRC, FILLED_LEN_SRC, FILLED_EMPTY_SRC):
        _filled_position_cases(ctx, src_t)


def _filled_position_cases(ctx, SRC_T):
    """AOD positions that are views of FILLED grids with different x and y index lists (a row, a column lane, slices), of a filled zone of
    the spec, of repeated / scaled / re-vacated filled grids; the reference evaluates the source with the harness's own filled grid
    (gen/native_filled.py), so the implementation's FilledGrid methods are not part of the expectation; a move from a (3,1) row to a
    (1,3) lane has to be rejected"""
    from bloqade.geometry.dialects.grid import Grid
    from bloqade.shuttle.arch import ArchSpec, Layout
    from bloqade.shuttle.dialects.filled.types import FilledGrid
    lay = Layout(static_traps={"traps": Grid.from_positions([0.0, 2.0, 5.0, 9.0], [0.0, 1.0, 3.0]),
                               "fz": FilledGrid(parent=Grid.from_positions([20.0, 21.0, 23.0], [0.0, 4.0, 5.0]), vacancies=frozenset({(1, 1), (0, 2)}))},
                 fillable={"traps"}, has_cz={"traps"}, has_local=set())
    X = ArchSpec(layout=lay)
    plain = SRC_T.replace("{DEC}", "")
    n = 0
    for how in ("traced with the spec", "compiled with arch_spec"):
        for args in ((0, 0.5, False), (1, 1.25, False), (2, -0.75, False), (1, 0.5, True)):
            ctx.evaluations += 1
            n += 1
            rep = {"filled_positions": True, "how": how, "args": list(args), "src": plain}
            nat = tc.run_native(plain, "main", args, X)
            gt = tc.PosTable()
            ref = tc.ref_trace(nat[1]) if nat[0] == "ok" else None
            want = tc.path_text(ref, gt) if ref is not None else "ERR"
            try:
                if how == "traced with the spec":
                    st, r = tc.run_impl(kernels.define(plain)["main"], args, X)
                else:
                    st, r = tc.run_impl(kernels.define(SRC_T.replace("{DEC}", "(arch_spec=S)"), S=X)["main"], args, ArchSpec())
            except Exception as e:
                st, r = "err", f"{type(e).__name__}: {e}"
            try:
                got = tc.path_text(tc.abstract_path(r), gt) if st == "ok" else "ERR"
            except Exception as e:
                got = "?unrenderable " + str(e)[:80]
            if nat[0] != "ok" or (want == "ERR") != args[2]:
                ctx.obligation("the filled-position kernel has the expected reference (a path, or a rejection for the shape-changing move)", False, str(nat)[:300])
            elif got != want:
                ctx.fail({"kind": "filled-positions", "how": how, "rejection_expected": args[2]}, rep,
                         f"AOD positions that are views of filled grids, {how}, args {args}: expected {want[:170]} got {got[:170]}" + (f" ({str(r)[:100]})" if st != "ok" else ""))
            else:
                ctx.nt(("filled-positions", how, args))
    ctx.count("kernels whose AOD positions are rows / lanes / slices of filled grids (native filled-grid reference), two routes", n)


KEYWORD_SRC = '''
@tweezer
def main(k: int, xs: ilist.IList[int, Any], dx: float, dy: float):
    z = spec.get_static_trap(zone_id="traps")
    start = z[0:2, k]
    action.set_loc(start)
    action.turn_on(xs, [0])
    action.move(grid.shift(start, dx, dy))
    action.move(grid.shift(start, dx + dx, 0.0))
    action.turn_off(action.ALL, action.ALL)
'''


def keyword_call_cases(ctx):
    """run_trace(kernel, args, kwargs): the trace is a function of the kernel and the VALUES of its parameters, however the caller splits
    them into positional and keyword arguments and in whatever order the keywords are written"""
    from kirin.dialects import ilist
    S = tweezer_prog.harness_spec()
    m = kernels.define(KEYWORD_SRC)["main"]
    names = ["k", "xs", "dx", "dy"]
    n = 0
    for vals in ((1, ilist.IList([0, 1]), 5.0, 0.5), (0, ilist.IList([1]), -1.25, 2.0)):
        nat = tc.run_native(KEYWORD_SRC, "main", vals, S)
        gt = tc.PosTable()
        ref = tc.ref_trace(nat[1]) if nat[0] == "ok" else None
        if ref is None:
            ctx.obligation("the keyword-call kernel has a reference path", False, str(nat)[:200])
            continue
        want = tc.path_text(ref, gt)
        for npos in (4, 3, 2, 1, 0):
            kw_names = names[npos:]
            orders = [kw_names, kw_names[::-1]] + ([kw_names[1:] + kw_names[:1]] if len(kw_names) > 2 else [])
            for order in orders:
                kwargs = {nm: vals[names.index(nm)] for nm in order}
                ctx.evaluations += 1
                n += 1
                st, r = tc.run_impl(m, vals[:npos], S, kwargs=kwargs)
                try:
                    got = tc.path_text(tc.abstract_path(r), gt) if st == "ok" else "ERR"
                except Exception as e:
                    got = "?unrenderable " + str(e)[:80]
                if got != want:
                    ctx.fail({"kind": "keyword-call", "positional": npos, "signature_order": order == kw_names},
                             {"keyword_call": True, "positional": npos, "order": order},
                             f"run_trace with {npos} positional arguments and keywords written as {order}: expected {want[:150]} got {got[:150]}"
                             + (f" ({str(r)[:100]})" if st != "ok" else ""))
                else:
                    ctx.nt(("keyword-call", npos, tuple(order)))
    ctx.count("run_trace calls over every positional/keyword split and keyword order", n)


def held_results(ctx):
    """what run_trace returned is the reference action list also LATER: one tracer instance traces kernel after kernel (one of them failing)
    while the caller holds every earlier result"""
    S = tweezer_prog.harness_spec()
    srcs = ["@tweezer\ndef main(a: float):\n    g = grid.from_positions([a, a + 1.0], [0.0])\n    action.set_loc(g)\n    action.turn_on(action.ALL, [0])\n    action.move(grid.shift(g, 0.0, a))\n",
            "@tweezer\ndef main(a: float):\n    g = grid.from_positions([a], [0.0, 2.0])\n    action.set_loc(g)\n    action.move(grid.shift(g, a, 0.0))\n    action.turn_on([0], [0, 1])\n    action.turn_off([0], [1])\n",
            "@tweezer\ndef main(a: float):\n    action.turn_on([0], [0])\n"]
    ms = [kernels.define(s)["main"] for s in srcs]
    ti = tc.new_tracer(S)
    held = []
    for step, (k, a) in enumerate([(0, 3.0), (1, 2.0), (2, 1.0), (0, 1.0), (1, 3.0)]):
        st, r = tc.run_impl(ms[k], (a,), tracer=ti)
        nat = tc.run_native(srcs[k], "main", (a,), S)
        ref = tc.ref_trace(nat[1]) if nat[0] == "ok" else None
        want = tc.path_text(ref, tc.PosTable()) if ref is not None else "ERR"
        if st == "ok":
            held.append((step, r, want))
        ctx.evaluations += 1
        for hs, hr, hw in held:
            try:
                now = tc.path_text(tc.abstract_path(hr), tc.PosTable())
            except Exception as e:
                now = "?unrenderable " + str(e)[:60]
            if now != hw:
                ctx.fail({"kind": "held-result-changed", "traced_at": hs, "seen_at": step}, {"held_results": True},
                         f"the action list returned by trace {hs} on one tracer instance reads {now[:130]} after trace {step} ran on that instance; it was (and the reference is) {hw[:130]}")
                return
    ctx.nt(("held-results",))


def translated_tracer(ctx, who="C01"):
    """ActionTracer's three handlers translated from taskgen.py on every run (harness/gen/tracer_translate.py: symbolic execution of the
    statement lists, fail-closed) and proved to give the outcome of Model.Tracer.istep for every state and statement; the refinement and
    well-formedness theorems restated for the translation"""
    from gen import tracer_translate
    from vcommon import paths
    name = "taskgen.py: ActionTracer's handlers are inside the translated fragment (generated model Gen_%s_src.v)" % who
    try:
        body, info = tracer_translate.generate(paths.REPO)
    except Exception as e:
        ctx.obligation(name, False, f"{type(e).__name__}: {e}"[:300])
        return
    ctx.obligation(name, True)
    ctx.extra["translated_handlers"] = info
    ok, log = coqrun.compile_lemma_file(ctx.bdir, f"Gen_{who}_src", body)
    closed = log.count("Closed under the global context")
    ctx.obligation("the translated handlers have the outcome of the hand model on every state and statement (gen_istep_eq), hence "
                   "gen_tracer_refines_reference and gen_traced_paths_are_well_formed; closed under the global context", ok and closed >= 3, log[-600:])


def run(ctx):
    S = tweezer_prog.harness_spec()
    reflect_tables(ctx, S)
    translated_tracer(ctx)
    helper_chain_histories(ctx)
    nested_helper_cases(ctx)
    filled_position_cases(ctx)
    keyword_call_cases(ctx)
    held_results(ctx)
    ctx.rule = ("random @tweezer kernels from a grammar (straight-line AOD calls, for/if, typed and untyped helper kernels, closures, "
                "spec lookups, grids from positions/shift/scale/sub-grids/indexing, literal/variable/branch-joined/argument selectors) x "
                "argument tuples, plus an error stream (AOD before set_loc, shape-changing move, assert, bad lookup/index); "
                "reference = the kernel source evaluated natively -> op list -> rtrace (Coq) ; non-trivial = distinct successful "
                "reference paths from >= 2 ops; plus ALL op sequences up to a length bound through one interpreter kernel")
    nprog = ctx.pick(250, 4000)
    cases, nfail_compile = [], 0
    for i in range(nprog):
        prog = tweezer_prog.gen_prog(ctx.rng)
        for t in prog.tags:
            ctx.hist("program_features", t)
        try:
            m = kernels.define(prog.src)["main"]
        except Exception as e:
            nfail_compile += 1
            ctx.hist("outcome", "rejected at definition: " + type(e).__name__)
            continue
        sm = None
        if "spec." in prog.src:
            try:
                sm = kernels.define(spec_route_src(prog.src), S=S)["main"]
            except Exception as e:
                sm = e
        for args in prog.arg_tuples:
            compare_case(ctx, f"p{i}", prog.src, args, S, m, cases, spec_method=sm)
        if i < 2:
            ctx.sample({"kernel": prog.src, "args": [repr(a) for a in prog.arg_tuples]})
    ctx.count("programs", nprog)
    ctx.count("programs_rejected_at_definition", nfail_compile)
    coq_eval_cases(ctx, "rand", cases)
    exhaustive(ctx, S, ctx.pick(3, 4))
    ctx.exhaustive = False
    ctx.explanation = ("Theorem C01_tracer_refines_reference: for ALL op sequences the statement-by-statement model of ActionTracer equals the "
                       "reference AOD model; error characterisation; tables reflected from the live code re-checked; correspondence of the model "
                       "to run_trace on generated kernels. kirin's lowering/interpretation (which produces the op sequence) is exercised, not verified.")


def replay(data):
    inp = data["input"]
    if "nested_src" in inp:
        class C:
            def __init__(s): s.fails, s.evaluations = [], 0
            def fail(s, sig, rep, what): s.fails.append(what)
            def nt(s, *a): pass
            def count(s, *a): pass
            def obligation(s, n, ok, log=""):
                if not ok: s.fails.append(n)
        c = C()
        nested_helper_cases(c)
        return bool(c.fails), (c.fails or ["every nested-helper kernel traces the reference of its spec"])[0][:200]
    if inp.get("held_results"):
        class C:
            def __init__(s): s.fails, s.evaluations = [], 0
            def fail(s, sig, rep, what): s.fails.append(what)
            def nt(s, *a): pass
        c = C()
        held_results(c)
        return bool(c.fails), (c.fails or ["held results keep their value"])[0][:200]
    if inp.get("filled_positions") or inp.get("keyword_call"):
        class C:
            def __init__(s): s.fails, s.evaluations = [], 0
            def fail(s, sig, rep, what): s.fails.append(what)
            def nt(s, *a): pass
            def count(s, *a): pass
            def obligation(s, n, ok, log=""):
                if not ok: s.fails.append(n)
        c = C()
        (keyword_call_cases if inp.get("keyword_call") else filled_position_cases)(c)
        return bool(c.fails), (c.fails or ["every kernel positioned on views of filled grids traces its reference"])[0][:200]
    if "chain_src" in inp:
        class C:
            def __init__(s): s.fails, s.evaluations = [], 0
            def fail(s, sig, rep, what): s.fails.append(what)
            def nt(s, *a): pass
            def count(s, *a): pass
        c = C()
        helper_chain_histories(c)
        return bool(c.fails), (c.fails or ["every kernel traces against its own spec"])[0][:200]
    S = tweezer_prog.harness_spec()
    if inp.get("kind") == "typed-kernel":
        from kirin.dialects import ilist
        ann = {"S": "slice", "L": "ilist.IList[int, Any]"}
        val = {"S": slice(0, 2), "L": ilist.IList([0, 1])}
        # recover static forms from the statement name
        sn = inp["stmt"]
        fx = "S" if ("XSlice" in sn or "XYSlice" in sn) else "L"
        fy = "S" if ("YSlice" in sn or "XYSlice" in sn) else "L"
        src = (f"@tweezer\ndef main(sx: {ann[fx]}, sy: {ann[fy]}):\n    action.set_loc(grid.from_positions([0.0, 1.0], [0.0, 1.0]))\n"
               f"    action.turn_{inp['k']}(sx, sy)\n")
        m = kernels.define(src)["main"]
        st, r = tc.run_impl(m, tuple(val[v] for v in inp["values"]), S)
        got = [a for a in tc.abstract_path(r) if a[0] == "S"][0][1:4]
        want = (inp["k"], inp["values"][0], inp["values"][1])
        return tuple(got) != want, f"{sn} with values {inp['values']} recorded {got}"
    from kirin.dialects import ilist
    args = eval(inp["args"], {"slice": slice, "IList": ilist.IList, "True": True, "False": False})
    if isinstance(args, list):
        args = (ilist.IList(args),)
    nat = tc.run_native(inp["src"], "main", args, S)
    if inp.get("route") == "arch_spec":
        from bloqade.shuttle.arch import ArchSpec
        try:
            m = kernels.define(spec_route_src(inp["src"]), S=S)["main"]
            st, r = tc.run_impl(m, args, ArchSpec())
        except Exception as e:
            st, r = "err", str(e)
    else:
        m = kernels.define(inp["src"])["main"]
        st, r = tc.run_impl(m, args, S)
    gt = tc.GridTable()
    if nat[0] == "err":
        return st == "ok", "source evaluation raises; implementation " + st
    ref = tc.ref_trace(nat[1])
    ref_text = "ERR" if ref is None else tc.path_text(ref, gt)
    impl_text = tc.path_text(tc.abstract_path(r), gt) if st == "ok" else "ERR"
    return ref_text != impl_text, f"expected {ref_text} got {impl_text}"
