"""C15 - one TraceInterpreter instance reused over histories of run_trace calls."""
import itertools

from vcommon import coqrun
from vcommon.coqrun import clist

from gen import kernels, tweezer_prog
from props import tracer_common as tc

COQ_IMPORT = "From BS Require Import Core.Show Core.Base Model.Tracer Model.TracerHeap.\n"

SEL_BODY = """
    g = grid.from_positions([0.0, 1.0], [0.0, 2.0])
    action.set_loc(g)
    action.turn_on(sx, sy)
    action.move(grid.shift(g, 1.0, 0.5))
    action.turn_off(sy, sx)
"""
LONG_BODY = """
    g = grid.from_positions([0.0, 1.0], [0.0])
    action.set_loc(g)
    action.turn_on([0, 1], [0])
    i = 0
    for i in range(n):
        action.move(grid.shift(g, 1.0, 0.5))
        action.move(g)
    action.turn_off([0, 1], [0])
"""

FIXED = [
    ("ok-two-segments", "(n: int)", """
    g = grid.from_positions([0.0, 1.0], [0.0])
    action.set_loc(g)
    action.turn_on(action.ALL, [0])
    i = 0
    for i in range(n):
        action.move(grid.shift(g, 1.0, 0.5))
    action.turn_off([0], action.ALL)
""", (2,)),
    ("ok-other-kernel", "(c: bool)", """
    z = spec.get_static_trap(zone_id="traps")
    action.set_loc(z[0:2, 1])
    if c:
        action.move(z[1:3, 2])
    action.set_loc(z[0, 0:2])
""", (True,)),
    ("fail-before-set_loc", "()", """
    action.turn_on([0], [0])
    action.set_loc(grid.from_positions([0.0], [0.0]))
""", ()),
    ("fail-shape-mismatch-after-moves", "(n: int)", """
    g = grid.from_positions([0.0, 1.0], [0.0])
    action.set_loc(g)
    action.turn_on([0, 1], [0])
    i = 0
    for i in range(n):
        action.move(grid.shift(g, 0.0, 1.0))
    action.move(grid.from_positions([0.0], [0.0, 1.0]))
""", (2,)),
    ("fail-assert", "(c: bool)", """
    g = grid.from_positions([0.0, 1.0], [0.0])
    action.set_loc(g)
    action.move(grid.shift(g, 2.0, 0.0))
    assert c
    action.move(g)
""", (False,)),
]


# kernels that execute the SAME statement kinds (+, len, [], *, comparison) on operands of different types: interpreters resolve the
# implementation of a statement by its kind AND the types of its operands
TYPED = [
    ("add-bare-ilists", "(a: ilist.IList, b: ilist.IList)", """
    c = a + b
    g = grid.from_positions([0.0, 1.0, 3.0], [0.0])
    action.set_loc(g)
    action.turn_on(c, action.ALL)
    i = 0
    for i in range(len(c)):
        action.move(grid.shift(g, 1.0 * c[i], 0.5))
    action.turn_off(action.ALL, [0])
""", "LISTS"),
    ("add-floats", "(x: float, y: float)", """
    g = grid.from_positions([x + 1.0, x + y + 2.5], [y * 2.0])
    action.set_loc(g)
    action.turn_on(action.ALL, [0])
    action.move(grid.shift(g, x + 1.0, y))
    action.turn_off(action.ALL, [0])
""", (0.5, 1.5)),
    ("add-ints-len-tuple", "(n: int, m: int)", """
    t = (n, m, n + m)
    g = grid.from_positions([0.0, 2.0], [0.0])
    action.set_loc(g)
    i = 0
    for i in range(len(t) + n + 1):
        action.move(grid.shift(g, 1.0, 1.0 * (t[2] + i)))
    action.turn_on([t[0] * 0, 1], action.ALL)
""", (1, 2)),
    ("getitem-grid-and-typed-list", "(a: ilist.IList[int, Any], x: float)", """
    z = spec.get_static_trap(zone_id="traps")
    g = z[0:2, a[0]]
    action.set_loc(g)
    action.turn_on(a + [1], [0])
    action.move(grid.shift(g, x + x, 1.0))
""", "TYPEDLIST"),
]


_METHODS = {}      # one Method per source text: calls of one kernel with different arguments share its statements


class Item:
    def __init__(self, name, src, args, S, omits_parameter=False, kwargs=None, native_args=None):
        self.name, self.src, self.args, self.kwargs = name, src, args, dict(kwargs or {})
        if src not in _METHODS:
            _METHODS[src] = kernels.define(src)["main"]
        self.method = _METHODS[src]
        nat = tc.run_native(src, "main", native_args if native_args is not None else args, S)
        self.native_failed = nat[0] == "err"
        self.ops = nat[1]
        self.usable = tc.ops_in_domain(self.ops)
        st, r = tc.run_impl(self.method, args, S, kwargs=self.kwargs)
        self.fresh = tc.abstract_path(r) if st == "ok" else None
        # the same, written out with coordinates and vacancies while it is fresh (a grid changed in place later still compares equal to itself)
        self.fresh_txt = tc.path_text(self.fresh, tc.PosTable()) if self.fresh is not None else "ERR"
        self.fresh_error = None if st == "ok" else str(r).split(":")[0]        # the class of the exception a fresh instance raises
        if omits_parameter:
            # a call that leaves a parameter out is refused by the interpreter (Python defaults are not part of a kernel's calling
            # convention); the model sees a failing call
            self.native_failed, self.ops = True, []

    def ops_coq(self, gt):
        s = [tc.op_coq(o, gt) for o in self.ops] + (["OFail"] if self.native_failed else [])
        return clist(s)


def obs_text(ap, gt):
    return "ERR" if ap is None else tc.path_text(ap, gt)


def run_history(ctx, items, hist, S, label):
    """hist: list of indices into items. Returns (coq calls term, expected line)."""
    from bloqade.shuttle.codegen import taskgen as T
    ti = tc.new_tracer(S)
    results, snaps = [], []
    seen_ids = {}
    for pos, ix in enumerate(hist):
        it = items[ix]
        st, r = tc.run_impl(it.method, it.args, tracer=ti, kwargs=it.kwargs)
        rep = {"history": [items[j].name for j in hist], "sources": {items[j].name: items[j].src for j in set(hist)},
               "args": {items[j].name: repr(items[j].args) for j in set(hist)}, "at_call": pos}
        if st == "ok":
            ap = tc.abstract_path(r)
            if r is ti.trace:
                ctx.fail({"kind": "returned-list-is-internal", "call": it.name}, rep, "run_trace returned the instance's own trace list")
            for a in r:
                if type(a) is T.WayPointsAction:
                    for key in (("obj", id(a)), ("list", id(a.way_points))):
                        if key in seen_ids and seen_ids[key] != pos:
                            ctx.fail({"kind": "shared-mutable-cell", "calls": [items[hist[seen_ids[key]]].name, it.name]}, rep,
                                     f"results of calls {seen_ids[key]} and {pos} share a mutable waypoint object")
                        seen_ids[key] = pos
        else:
            ap = None
        if ap is None and it.fresh is None and str(r).split(":")[0] != it.fresh_error:
            ctx.fail({"kind": "differs-from-fresh-instance", "call": it.name, "prefix": [items[j].name for j in hist[:pos]], "what": "exception class"}, rep,
                     f"call {pos} ({it.name}) after {[items[j].name for j in hist[:pos]]} raises {str(r).split(':')[0]} but a fresh instance raises {it.fresh_error}")
        if ap is not None and it.fresh is not None and tc.path_text(ap, tc.PosTable()) != it.fresh_txt:
            ctx.fail({"kind": "differs-from-fresh-instance", "call": it.name, "prefix": [items[j].name for j in hist[:pos]], "what": "coordinates / vacancies"}, rep,
                     f"call {pos} ({it.name}) after {[items[j].name for j in hist[:pos]]} returned {tc.path_text(ap, tc.PosTable())[:150]} but a fresh instance returned {it.fresh_txt[:150]}")
        if ap != it.fresh:
            ctx.fail({"kind": "differs-from-fresh-instance", "call": it.name, "prefix": [items[j].name for j in hist[:pos]]}, rep,
                     f"call {pos} ({it.name}) after {[items[j].name for j in hist[:pos]]} returned "
                     f"{obs_text(ap, tc.GridTable())[:150]} but a fresh instance returns {obs_text(it.fresh, tc.GridTable())[:150]}")
        results.append(r if st == "ok" else None)
        snaps.append(None if ap is None else (ap, tc.path_text(ap, tc.PosTable())))
        for k in range(pos):
            now = tc.abstract_path(results[k]) if results[k] is not None else None
            now = None if now is None else (now, tc.path_text(now, tc.PosTable()))
            if (now is None) != (snaps[k] is None) or (now is not None and (now[0] != snaps[k][0] or now[1] != snaps[k][1])):
                ctx.fail({"kind": "earlier-result-modified", "earlier": items[hist[k]].name, "by": it.name}, rep,
                         f"the path returned by call {k} ({items[hist[k]].name}) was modified by call {pos} ({it.name})")
                snaps[k] = now
    gt = tc.GridTable()
    calls = clist([items[ix].ops_coq(gt) for ix in hist])
    final = [tc.abstract_path(r) if r is not None else None for r in results]
    line = "||".join(obs_text(a, gt) for a in final)
    ctx.evaluations += 1
    ctx.hist("history_len", len(hist))
    ctx.hist("failing_calls_in_history", sum(1 for r in results if r is None))
    if len(hist) >= 2 and any(r is None for r in results) and any(r is not None for r in results):
        ctx.nt(tuple(hist) + (label,))
    return calls, line, rep if hist else {}


EDITED_SPEC_SRC = """
@tweezer
def look(n: int):
    z = spec.get_static_trap(zone_id="mem")
    action.set_loc(z)
    action.turn_on(action.ALL, action.ALL)
    action.move(grid.shift(z, 1.0 * n, 0.0))
    action.turn_off(action.ALL, action.ALL)

@tweezer
def plain(n: int):
    z = grid.from_positions([0.0, 2.0], [1.0])
    action.set_loc(z)
    action.turn_on(action.ALL, action.ALL)
    action.move(grid.shift(z, 0.0, 1.0 * n))
"""


def spec_edited_between_calls(ctx):
    """one tracer instance over a spec whose layout is EMPTY at the first calls (every look-up fails, possibly before the kernel body starts)
    and is extended IN PLACE by its holder before the later calls: each call gives what a fresh instance over the same spec object gives then"""
    from bloqade.geometry.dialects.grid import Grid
    from bloqade.shuttle.arch import ArchSpec, Layout
    try:
        ns = kernels.define(EDITED_SPEC_SRC)
    except Exception as e:
        ctx.obligation("the kernels of the edited-spec history compile", False, f"{type(e).__name__}: {e}"[:300])
        return
    E = ArchSpec(layout=Layout(static_traps={}, fillable=set(), has_cz=set(), has_local=set()))
    ti = tc.new_tracer(E)
    edits = {2: ("mem", Grid.from_positions([0.0, 3.0, 6.0], [0.0, 4.0])), 5: ("mem2", Grid.from_positions([50.0], [0.0, 1.0]))}
    steps = [("look", (1,)), ("plain", (2,)), ("look", (2,)), ("plain", (1,)), ("look", (1,)), ("look", (3,)), ("plain", (2,))]
    done = []
    for i, (k, args) in enumerate(steps):
        if i in edits:
            E.layout.static_traps[edits[i][0]] = edits[i][1]
            done.append(f"layout.static_traps[{edits[i][0]!r}] added in place")
        done.append(f"{k}{args}")
        ctx.evaluations += 1
        st, r = tc.run_impl(ns[k], args, tracer=ti)
        fst, fr = tc.run_impl(ns[k], args, arch_spec=E)
        got = tc.path_text(tc.abstract_path(r), tc.PosTable()) if st == "ok" else "ERR " + str(r).split(":")[0]
        want = tc.path_text(tc.abstract_path(fr), tc.PosTable()) if fst == "ok" else "ERR " + str(fr).split(":")[0]
        if got != want:
            ctx.fail({"kind": "differs-from-fresh-instance", "call": k, "scenario": "spec edited in place between calls", "step": i},
                     {"edited_spec_src": EDITED_SPEC_SRC, "history": list(done)},
                     f"history {done}: the reused instance gives {got[:140]} where a fresh instance over the same spec gives {want[:140]}")
            return
        ctx.nt(("edited-spec", i, st))
    ctx.count("history over a spec extended in place between the calls of one instance: steps", len(steps))


def source_frame(ctx):
    """taskgen.py read with ast (harness/gen/tracer_frame.py): what a trace writes on the interpreter, what initialize rebinds, what run_trace
    returns - the state Model/TracerHeap.v carries from one call to the next must be all there is"""
    import os
    from gen import tracer_frame
    from vcommon import paths
    try:
        info = tracer_frame.analyse(os.path.join(paths.REPO, "src/bloqade/shuttle/codegen/taskgen.py"))
    except Exception as e:
        ctx.obligation("source: taskgen.py can be read by the state-frame reader", False, f"{type(e).__name__}: {e}"[:300])
        return
    ctx.extra["source_state_frame"] = info
    for name, ok, detail in tracer_frame.obligations(info):
        ctx.obligation(name, ok, detail[:300])
    ok, log = coqrun.compile_lemma_file(ctx.bdir, "Gen_C15_src", tracer_frame.coq_file(info))
    ctx.obligation("Gen_C15_src: the model's state is written state, and every written attribute is reset (compiled)", ok, log[-400:])


def run(ctx):
    S = tweezer_prog.harness_spec()
    source_frame(ctx)
    ctx.rule = ("histories of run_trace calls on ONE TraceInterpreter: all sequences up to a length bound over 5 fixed (kernel, args) items "
                "(2 succeeding, fail-before-set_loc, shape-mismatch-after-moves, failing assert) and random sequences up to length 12 over "
                "generated kernels; each result snapshotted at return and re-read after every later call, compared with a fresh instance, "
                "object identities of waypoint cells compared across results; non-trivial = distinct histories mixing failing and succeeding calls")
    spec_edited_between_calls(ctx)
    fixed = [Item(n, f"@tweezer\ndef main{sig}:{body}", args, S) for n, sig, body, args in FIXED]
    for it in fixed:
        ctx.hist("fixed_item_outcome", f"{it.name}: {'path' if it.fresh is not None else 'raises'}")
    maxlen = ctx.pick(3, 4)
    cases = []
    for n in range(1, maxlen + 1):
        for hist in itertools.product(range(len(fixed)), repeat=n):
            cases.append(run_history(ctx, fixed, list(hist), S, "fixed"))
    ctx.count("exhaustive_histories", len(cases))
    # one kernel whose selectors are run-time arguments, called with every mix of forms (shared statements)
    from kirin.dialects import ilist
    forms = [slice(None), ilist.IList([0, 1]), slice(0, 1), ilist.IList([1])]
    sel_items = [Item(f"sel-{i}-{j}", "@tweezer\ndef main(sx, sy):" + SEL_BODY, (a, b), S) for i, a in enumerate(forms) for j, b in enumerate(forms)]
    sel_items = [it for it in sel_items if it.usable]
    for h in range(ctx.pick(40, 400)):
        hist = [ctx.rng.randrange(len(sel_items)) for _ in range(ctx.rng.randint(2, 6))]
        cases.append(run_history(ctx, sel_items, hist, S, "selector-forms"))
    # statement kinds shared over operand types: every order of up to three of the kernels above on one instance, with failing calls mixed in
    targs = {"LISTS": (ilist.IList([0]), ilist.IList([2])), "TYPEDLIST": (ilist.IList([0]), 0.75)}
    typed = [Item(n, f"@tweezer\ndef main{sig}:{body}", targs.get(a, a) if isinstance(a, str) else a, S) for n, sig, body, a in TYPED]
    for it in typed:
        ctx.hist("typed_item_outcome", f"{it.name}: {'path' if it.fresh is not None else 'raises'}")
        if it.fresh is None or not it.usable:
            ctx.obligation("the typed-operand kernels trace on a fresh instance", False, it.name)
    # two DIFFERENT kernels of one name whose trailing parameter has a default, called without it (refused by a fresh instance)
    dflt = [Item(f"default-{v}", f"@tweezer\ndef main(x: float, y: float = {v}):\n    g = grid.from_positions([x], [y])\n    action.set_loc(g)\n    action.move(grid.shift(g, 1.0, y))\n",
                 (0.5,), S, omits_parameter=True) for v in ("5.0", "1.0")]
    for h in itertools.permutations(range(2), 2):
        cases.append(run_history(ctx, dflt + [fixed[0]], list(h) + [2, h[0]], S, "same-name-defaults"))
    # calls that bind parameters BY KEYWORD: all of them, a surplus name next to a complete binding, and a call that leaves a parameter
    # unbound (a failing call like any other: the instance must serve the next call as a fresh one would)
    ksrc = "@tweezer\ndef main(x: float, y: float):\n    g = grid.from_positions([x], [y])\n    action.set_loc(g)\n    action.move(grid.shift(g, 1.0, y))\n"
    kw_items = [Item("kw-complete", ksrc, (0.5,), S, kwargs={"y": 2.0}, native_args=(0.5, 2.0)),
                Item("kw-all", ksrc, (), S, kwargs={"y": 1.5, "x": 0.25}, native_args=(0.25, 1.5)),
                Item("kw-unbound-parameter", ksrc, (0.5,), S, kwargs={"z": 2.0}, omits_parameter=True),
                Item("positional", ksrc, (0.5, 1.0), S)]
    kw_items.insert(3, Item("kw-surplus", ksrc, (0.5, 1.0), S, kwargs={"dy": 2.0}, native_args=(0.5, 1.0)))
    for it in kw_items:
        ctx.hist("keyword_item_outcome", f"{it.name}: {'path' if it.fresh is not None else 'raises ' + str(it.fresh_error)}")
    for hist in itertools.permutations(range(len(kw_items)), 3):
        cases.append(run_history(ctx, kw_items, list(hist) + [4], S, "keyword-calls"))
    # kernels written in an EXTENSION of the tweezer group (kirin's vmath added): a tracer built for the tweezer group refuses them, and a
    # plain tweezer kernel that reaches the extra dialect through such a helper fails - on a fresh instance and on a reused one alike
    try:
        from kirin.dialects import vmath
        from bloqade.shuttle.prelude import tweezer as _tw
        ext = _tw.add(vmath.dialect)
        ext_ns = kernels.define("@ext\ndef scaled(xs: ilist.IList[float, Any], factor: float):\n    return vmath.scale(factor, xs)\n", ext=ext, vmath=vmath)
        ext_src = ("@ext\ndef main(xs: ilist.IList[float, Any], factor: float):\n    action.set_loc(grid.from_positions(xs, [0.0]))\n"
                   "    action.move(grid.from_positions(vmath.scale(factor, xs), [0.0]))\n")
        plain_src = ("@tweezer\ndef main(xs: ilist.IList[float, Any], factor: float):\n    action.set_loc(grid.from_positions(xs, [0.0]))\n"
                     "    action.move(grid.from_positions(scaled(xs, factor), [0.0]))\n")
        _METHODS[ext_src] = kernels.define(ext_src, ext=ext, vmath=vmath)["main"]
        _METHODS[plain_src] = kernels.define(plain_src, scaled=ext_ns["scaled"])["main"]
        xs = ilist.IList([0.0, 1.0])
        ext_items = [Item("extended-group-kernel", ext_src, (xs, 2.0), S, omits_parameter=True), Item("tweezer-kernel-over-extended-helper", plain_src, (xs, 2.0), S, omits_parameter=True),
                     fixed[0]]
        for it in ext_items[:2]:
            ctx.hist("extended_group_item_outcome", f"{it.name}: {'path' if it.fresh is not None else 'raises ' + str(it.fresh_error)}")
        for hist in itertools.permutations(range(3), 3):
            cases.append(run_history(ctx, ext_items, list(hist) + [1, 2], S, "extended-group"))
    except Exception as e:
        ctx.obligation("kernels in an extension of the tweezer group can be defined", False, f"{type(e).__name__}: {e}"[:200])
    # closures that CAPTURE an argument of the call and RETURN a value (mapped over an index list, called directly), and a helper kernel
    # called with equal arguments in calls whose captured values differ: nothing computed in one call may be served to the next
    cap_src = ("@tweezer\ndef twice(v: float):\n    return 2.0 * v\n\n"
               "@tweezer\ndef main(off: int, rows: ilist.IList[int, Any]):\n    assert off < 3, \"offset too large\"\n    def rel(r: int):\n        return r + off\n    def step(k: int):\n        return 0.5 * off * k\n"
               "    ys = ilist.map(rel, rows)\n    g = grid.from_positions([0.0, 1.0], [0.0, 1.0, 2.0, 3.0, 4.0])\n    s = grid.sub_grid(g, [0, 1], ys)\n"
               "    action.set_loc(s)\n    action.turn_on(action.ALL, action.ALL)\n    action.move(grid.shift(s, twice(0.25), step(1)))\n    action.move(grid.shift(s, 0.0, step(2) + twice(1.0)))\n")
    cap_items = [Item("capture off=+2", cap_src, (2, ilist.IList([0, 1])), S), Item("capture off=+1", cap_src, (1, ilist.IList([0, 1])), S),
                 Item("capture off=-2", cap_src, (-2, ilist.IList([2, 3])), S), Item("capture off=+3 (index out of range)", cap_src, (3, ilist.IList([0, 2])), S), fixed[0]]
    for it in cap_items[:4]:
        ctx.hist("capturing_closure_item_outcome", f"{it.name}: {'path' if it.fresh is not None else 'raises ' + str(it.fresh_error)}")
    if any(it.fresh is None for it in cap_items[:3]) or cap_items[3].fresh is not None:
        ctx.obligation("the capturing-closure kernels trace (and the out-of-range one fails) on a fresh instance", False, str([(it.name, it.fresh_error) for it in cap_items]))
    for hist in itertools.permutations(range(len(cap_items)), 3):
        cases.append(run_history(ctx, cap_items, list(hist) + [hist[0]], S, "capturing-closures"))
    # a lookup of a name the spec does not have, in a branch that only some calls execute (directly and inside a helper kernel): the call
    # that executes it fails, the call that does not succeeds - whichever came first, and however often each was made
    miss_src = ("@tweezer\ndef fallback():\n    return spec.get_static_trap(zone_id=\"no_such_zone\")\n\n"
                "@tweezer\ndef main(c: int, x: float):\n    g = grid.from_positions([x], [0.0])\n    if c == 1:\n        g = spec.get_static_trap(zone_id=\"not_a_zone\")[0:1, 0:1]\n"
                "    if c == 2:\n        g = fallback()[0:1, 0:1]\n    action.set_loc(g)\n    action.move(grid.shift(g, 1.0, 0.0))\n")
    miss_items = [Item("branch not taken", miss_src, (0, 0.5), S), Item("missing zone looked up", miss_src, (1, 0.5), S),
                  Item("missing zone looked up in a helper", miss_src, (2, 0.5), S), Item("branch not taken, other x", miss_src, (0, 1.5), S)]
    for it in miss_items:
        ctx.hist("missing_entry_item_outcome", f"{it.name}: {'path' if it.fresh is not None else 'raises ' + str(it.fresh_error)}")
    if miss_items[0].fresh is None or miss_items[1].fresh is not None or miss_items[2].fresh is not None:
        ctx.obligation("the missing-entry kernel fails exactly in the calls that execute the lookup, on a fresh instance", False, str([(it.name, it.fresh_error) for it in miss_items]))
    for hist in itertools.product(range(len(miss_items)), repeat=3):
        cases.append(run_history(ctx, miss_items, list(hist) + [0, 1], S, "missing-entry-in-a-branch"))
    # kernels with NOTHING to do (an empty body; a body whose only branch is never taken) after calls that recorded something, successful or
    # failed: the answer is the empty path, not what the previous call left behind
    idle_items = [Item("idle: empty body", "@tweezer\ndef main():\n    return\n", (), S),
                  Item("idle: branch never taken", "@tweezer\ndef main(n: int):\n    if n > 100:\n        action.set_loc(grid.from_positions([0.0], [0.0]))\n", (1,), S),
                  fixed[0], fixed[1]] + [it for it in fixed if it.fresh is None][:2]
    for it in idle_items[:2]:
        ctx.hist("idle_item_outcome", f"{it.name}: {'path of ' + str(len(it.fresh)) + ' actions' if it.fresh is not None else 'raises ' + str(it.fresh_error)}")
    for hist in itertools.permutations(range(len(idle_items)), 2):
        cases.append(run_history(ctx, idle_items, list(hist) + [0, 1, hist[0]], S, "idle-kernels"))
    # one kernel called with arguments whose Python hashes collide (-1.0 / -2.0, -1 / -2) as shifts, scale factors and grid origins:
    # whatever an instance remembers about one call must not answer another
    hsrc = ("@tweezer\ndef main(d: float, k: int):\n    g = grid.from_positions([d, d + 1.0], [0.0, 1.0])\n    action.set_loc(g)\n    action.turn_on(action.ALL, [0])\n"
            "    action.move(grid.shift(g, d, 0.0))\n    action.move(grid.shift(g, 0.0, d))\n    action.move(grid.shift(grid.shift(g, d, d), d, 1.0))\n"
            "    action.move(grid.shift(g, 1.0 * k, 2.0))\n")
    hash_items = [Item(f"shift by {d}, {k}", hsrc, (d, k), S) for d, k in ((-1.0, -1), (-2.0, -2), (-1.0, -2), (-3.0, -1), (2.0, 1))]
    for it in hash_items:
        if it.fresh is None:
            ctx.obligation("the colliding-hash kernels trace on a fresh instance", False, f"{it.name}: {it.fresh_error}")
    for hist in itertools.permutations(range(len(hash_items)), 3):
        cases.append(run_history(ctx, hash_items, list(hist) + [hist[0]], S, "colliding-hashes"))
    # helper kernels called with KEYWORD arguments: two helpers whose parameters are declared in different orders, called with the same
    # keywords in the same order, by different kernels traced on one instance (with a failing call in between)
    hk = ("@tweezer\ndef hop_dx_dy(start, dx: float, dy: float):\n    action.move(grid.shift(start, dx, 0.0))\n    action.move(grid.shift(start, dx, dy))\n\n"
          "@tweezer\ndef hop_dy_dx(start, dy: float, dx: float):\n    action.move(grid.shift(start, dx, 0.0))\n    action.move(grid.shift(start, dx, dy))\n\n")
    mk = lambda call: hk + "@tweezer\ndef main(x: float):\n    g = grid.from_positions([x, x + 1.0], [0.0])\n    action.set_loc(g)\n    action.turn_on(action.ALL, action.ALL)\n    " + call + "\n"
    kwh_items = [Item("helper declared (start, dx, dy)", mk("hop_dx_dy(g, dx=3.0, dy=7.0)"), (0.0,), S), Item("helper declared (start, dy, dx)", mk("hop_dy_dx(g, dx=3.0, dy=7.0)"), (0.0,), S),
                 Item("helper called positionally", mk("hop_dy_dx(g, 7.0, 3.0)"), (0.0,), S), Item("helper called with the other keyword order", mk("hop_dx_dy(g, dy=7.0, dx=3.0)"), (0.0,), S)]
    kwh_items += [it for it in fixed if it.fresh is None][:1]
    if any(it.fresh is None for it in kwh_items[:4]) or len({it.fresh_txt for it in kwh_items[:4]}) != 1:
        ctx.obligation("the keyword-helper kernels all trace the same path on fresh instances", False, str([(it.name, it.fresh_txt[:60]) for it in kwh_items[:4]]))
    for hist in itertools.permutations(range(len(kwh_items)), 3):
        cases.append(run_history(ctx, kwh_items, list(hist) + [hist[0]], S, "keyword-helpers"))
    # a spec whose zone is a FILLED grid, vacated by the kernel and used as a waypoint: paths handed out earlier keep their vacancies, and
    # every call sees the zone the spec was built with
    from bloqade.geometry.dialects.grid import Grid
    from bloqade.shuttle.arch import ArchSpec, Layout
    from bloqade.shuttle.dialects.filled.types import FilledGrid

    def filled_spec():
        mem = FilledGrid(parent=Grid.from_positions([0.0, 2.0, 4.0], [0.0, 1.0]), vacancies=frozenset({(2, 1)}))
        return ArchSpec(layout=Layout(static_traps={"mem": mem}, fillable={"mem"}, has_cz=set(), has_local=set()))
    fsrc = ("@tweezer\ndef main(k: int):\n    assert k < 3, \"no such column\"\n    z = spec.get_static_trap(zone_id=\"mem\")\n    v = filled.vacate(z, [(k, 0)])\n    action.set_loc(z)\n"
            "    action.turn_on(action.ALL, action.ALL)\n    action.move(v)\n    action.move(filled.shift(v, 1.0, 0.0))\n")
    SF = filled_spec()
    fz_items = [Item(f"vacate column {k} of the filled zone", fsrc, (k,), filled_spec()) for k in (0, 1, 7, 2)]
    for hist in itertools.permutations(range(len(fz_items)), 3):
        cases.append(run_history(ctx, fz_items, list(hist) + [hist[0]], SF, "filled-zone-of-the-spec"))
    typed_pool = typed + [fixed[3], fixed[4]]
    for n in (2, 3):
        for hist in itertools.permutations(range(len(typed_pool)), n):
            cases.append(run_history(ctx, typed_pool, list(hist), S, "typed-operands"))
    # a long history: many interpreted statements in total on one instance (any per-instance budget or accumulation shows up here)
    long_item = Item("long-loop", "@tweezer\ndef main(n: int):" + LONG_BODY, (ctx.pick(9000, 30000),), S)
    short_item = fixed[0]
    run_history(ctx, [long_item, short_item], [0, 0, 0, 0, 1, 0, 1], S, "long")
    ctx.count("long_history_total_loop_iterations", 5 * long_item.args[0])
    # many failing calls in a row on one instance (anything a failed call leaves behind accumulates), then calls that must still work
    fail_items = [it for it in fixed if it.fresh is None]
    nfail = ctx.pick(140, 400)
    for fi in range(len(fail_items)):
        run_history(ctx, [fail_items[fi], short_item, fixed[1]], [0] * nfail + [1, 2, 0, 1], S, "many-failures")
    ctx.count("failing_calls_in_a_row", nfail)
    ctx.exhaustive = False
    # random histories over generated kernels
    pool = list(fixed)
    tries = 0
    while len(pool) < ctx.pick(30, 120) and tries < 2000:
        tries += 1
        prog = tweezer_prog.gen_prog(ctx.rng, p_err=0.45, nargs=2)
        try:
            for args in prog.arg_tuples:
                it = Item(f"gen{tries}", prog.src, args, S)
                if it.usable:
                    pool.append(it)
        except Exception:
            continue
    for h in range(ctx.pick(150, 2500)):
        L = ctx.rng.randint(2, 12)
        hist = [ctx.rng.randrange(len(pool)) for _ in range(L)]
        cases.append(run_history(ctx, pool, hist, S, "rand"))
    ctx.sample({"history": cases[len(cases) // 2][2].get("history"), "final_observations": cases[len(cases) // 2][1][:400]})
    chunks = [cases[i:i + 60] for i in range(0, len(cases), 60)]
    bodies = [(f"hist_{k}", COQ_IMPORT +
               "Definition run1 (calls : list (list op)) : string :=\n"
               "  let (rs, sf) := run_history new_instance calls in sep_by \"||\"%%string (map (fun r => show_obs (observe (heap sf) r)) rs).\n"
               "Eval vm_compute in (lines (map run1 %s))." % clist([c[0] for c in ch])) for k, ch in enumerate(chunks)]
    mism = []
    for ch, (ok, vals, log) in zip(chunks, coqrun.eval_many(ctx.bdir, bodies)):
        if not ok or len(vals) != 1 or len(vals[0]) != len(ch):
            ctx.obligation("coqc hist file evaluates", False, log[-800:])
            continue
        for c, line in zip(ch, vals[0]):
            if line != c[1]:
                mism.append({"model": line[:300], "impl": c[1][:300], "history": c[2].get("history")})
    ctx.correspondence("heap model run_history (final observations of all results) vs one reused TraceInterpreter", len(cases), mism)
    ctx.explanation = ("Theorems over ALL histories from ANY starting state: every result observed at the end equals the fresh-instance result; "
                       "earlier results never change; cells of a result are allocated by its own call. The heap model is tied to the "
                       "implementation by replaying the same histories and by object-identity checks on the live results.")


def replay(data):
    inp = data["input"]
    S = tweezer_prog.harness_spec()

    class C:
        evaluations = 0
        def __init__(s): s.fails = []
        def fail(s, sig, rep, what): s.fails.append(what)
        def hist(s, *a): pass
        def nt(s, *a): pass
        def count(s, *a): pass
        def obligation(s, n, ok, log=""):
            if not ok: s.fails.append(n + ": " + log)
    c = C()
    if "edited_spec_src" in inp:
        spec_edited_between_calls(c)
        return bool(c.fails), "; ".join(c.fails[:3]) or "history over an edited spec behaves like fresh instances"
    from kirin.dialects import ilist
    names = inp["history"]
    uniq = sorted(set(names))
    items = [Item(n, inp["sources"][n], eval(inp["args"][n], {"slice": slice, "IList": ilist.IList}), S) for n in uniq]
    run_history(c, items, [uniq.index(n) for n in names], S, "replay")
    return bool(c.fails), "; ".join(c.fails[:3]) or "history behaves like fresh instances"
