"""C17 - each kernel kind accepts exactly its documented vocabulary."""
import importlib
import itertools

from vcommon import coqrun
from vcommon.coqrun import clist

from gen import kernels, tweezer_prog

CAT = {"action": "CAction", "schedule": "CSchedule", "gate": "CGate", "init": "CInit",
       "bloqade.shuttle.measure": "CMeasure", "shuttle.atom": "CAtom", "qourier.spec": "CSpec",
       "grid": "CGrid", "shuttle.filled": "CFilled", "path": "CPath"}
POLICY = {  # Python twin of Model.Vocab.policy (search oracle); (tweezer, move, kernel)
    "CAction": (True, False, False), "CSchedule": (False, True, False), "CGate": (False, True, True),
    "CInit": (False, True, False), "CMeasure": (False, True, False), "CAtom": (False, False, True),
    "CSpec": (True, True, True), "CGrid": (True, True, True), "CFilled": (True, True, True),
    "CPath": (False, False, False), "COther": (False, False, False)}
# the documented vocabulary is stated per INTERFACE: what a module exposes belongs to that module's category, whatever
# dialect object the wrapped statement class happens to be registered with
MODCAT = {"action": "CAction", "atom": "CAtom", "filled": "CFilled", "gate": "CGate", "init": "CInit", "measure": "CMeasure",
          "schedule": "CSchedule", "spec": "CSpec", "grid": "CGrid"}
KINDS = ["tweezer", "move", "kernel"]
INTERFACES = ["action", "atom", "filled", "gate", "init", "measure", "schedule", "spec"]


def wrappers():
    """every public wrapper of every dialect interface module (+ the geometry grid interface)"""
    from kirin.lowering.python.binding import Binding
    out = []
    mods = {n: importlib.import_module(f"bloqade.shuttle.dialects.{n}._interface") for n in INTERFACES}
    mods["grid"] = importlib.import_module("bloqade.geometry.dialects.grid._interface")
    for mn, m in mods.items():
        for n, o in sorted(vars(m).items()):
            if isinstance(o, Binding) and not n.startswith("_"):
                d = o.parent.dialect
                out.append((mn, n, o, d.name if d is not None else "?"))
    return out


def interface_gaps():
    """public names of the interface modules that should be statement wrappers but are not:
    (a) a statement class imported by the module that no public wrapper of the module wraps,
    (b) a public function defined in the module itself that is a plain Python function"""
    import inspect
    from kirin import ir
    from kirin.lowering.python.binding import Binding
    gaps = []
    mods = {n: importlib.import_module(f"bloqade.shuttle.dialects.{n}._interface") for n in INTERFACES}
    mods["grid"] = importlib.import_module("bloqade.geometry.dialects.grid._interface")
    for mn, m in mods.items():
        pub = {n: o for n, o in vars(m).items() if not n.startswith("_")}
        wrapped = {o.parent for o in pub.values() if isinstance(o, Binding)}
        for n, o in sorted(pub.items()):
            if inspect.isclass(o) and issubclass(o, ir.Statement) and o not in wrapped:
                gaps.append((mn, n, "statement class imported by the interface but wrapped by no public wrapper"))
            if inspect.isfunction(o) and getattr(o, "__module__", None) == m.__name__:
                gaps.append((mn, n, "public function of the interface that is not a statement wrapper"))
    return gaps


_DOC_PARAMS = {}


def documented_parameters(mn, n):
    """the parameter names of the wrapper's `def` in its interface module (what a user reads), or None"""
    import ast
    import inspect
    if mn not in _DOC_PARAMS:
        modname = f"bloqade.geometry.dialects.grid._interface" if mn == "grid" else f"bloqade.shuttle.dialects.{mn}._interface"
        try:
            tree = ast.parse(inspect.getsource(importlib.import_module(modname)))
            _DOC_PARAMS[mn] = {d.name: [a.arg for a in d.args.posonlyargs + d.args.args] for d in tree.body if isinstance(d, ast.FunctionDef)}
        except Exception:
            _DOC_PARAMS[mn] = {}
    return _DOC_PARAMS[mn].get(n)


def one_statement_kernels(kind, mn, n, binding):
    """sources of kernels of `kind` whose body is one use of the wrapper, in every argument form: operands are untyped
    kernel parameters; attributes get a literal of their declared type - (a) only the required ones, (b) all of them by
    keyword, (c) all of them positionally in declaration order.  -> [(form, src)] ([] if no literal can be synthesised)"""
    import dataclasses
    from kirin.decl import fields
    f = fields(binding.parent)
    params, args = [], []
    for i, (an, af) in enumerate(f.std_args.items()):
        p = f"a{i}"
        params.append(p)
        args.append(f"({p},)" if af.group else p)
    req, opt = [], []
    for an, at in f.attributes.items():
        lit = {"str": '"traps"', "float": "1.5", "int": "1", "bool": "True"}.get(getattr(at.annotation, "__name__", ""), None)
        has_default = at.default is not dataclasses.MISSING or at.default_factory is not None
        if lit is None:
            if has_default:
                continue
            return []
        (opt if has_default else req).append((an, lit))
    forms = [("required arguments only", args + [f"{an}={lit}" for an, lit in req])]
    if opt:
        forms.append(("every attribute by keyword", args + [f"{an}={lit}" for an, lit in req + opt]))
        if not f.regions:
            forms.append(("every attribute positionally", args + [lit for an, lit in req + opt]))
    # every operand bound by the keyword the wrapper's own `def` documents (read from the interface module's source)
    doc = documented_parameters(mn, n)
    # (the grid interface belongs to bloqade.geometry: its parameter names are documented there, not in this repository)
    if doc is not None and mn != "grid" and params and len(doc) >= len(params) and not f.regions:
        forms.append(("operands by their documented keywords", [f"{doc[i]}={a}" for i, a in enumerate(args)] + [f"{an}={lit}" for an, lit in req]))
    out = []
    for form, a in forms:
        call = f"{mn}.{n}({', '.join(a)})"
        body = f"    with {call}:\n        ...\n" if f.regions else f"    {call}\n"
        out.append((form, f"@{kind}\ndef main({', '.join(params)}):\n{body}"))
    # operands annotated with the types the statement declares: all of them, and each one alone (mixed typed / untyped operands)
    if params and not f.regions:
        TYPE_NS.update({f"T_{mn}_{n}_{i}": af.type for i, af in enumerate(f.std_args.values())})
        ann = lambda i: f"a{i}: T_{mn}_{n}_{i}"
        base_call = f"    {mn}.{n}({', '.join(forms[0][1])})\n"
        sigs = [("all operands annotated", [ann(i) for i in range(len(params))])]
        if len(params) > 1:
            sigs += [(f"only operand {i} annotated", [ann(j) if j == i else f"a{j}" for j in range(len(params))]) for i in range(len(params))]
            sigs += [(f"all but operand {i} annotated", [ann(j) if j != i else f"a{j}" for j in range(len(params))]) for i in range(len(params))]
        for form, sig in sigs:
            out.append((form, f"@{kind}\ndef main({', '.join(sig)}):\n{base_call}"))
        # grid operands annotated with the BARE class (`z: grid.Grid`), the annotation a user writes first
        bare = {}
        for i, af in enumerate(f.std_args.values()):
            t = repr(af.type)
            if t.startswith("FilledGrid["):
                bare[i] = "filled.FilledGrid"
            elif t.startswith("Grid["):
                bare[i] = "grid.Grid"
        if bare:
            sig = [f"a{i}: {bare[i]}" if i in bare else f"a{i}" for i in range(len(params))]
            out.append(("grid operands annotated with the bare class", f"@{kind}\ndef main({', '.join(sig)}):\n{base_call}"))
    # operands that are constants known when the kernel is defined, and a result that is used
    consts = []
    for i, af in enumerate(f.std_args.values()):
        t = repr(af.type)
        v = next((val for pre, val in CONST_OPERANDS if t.startswith(pre)), None)
        if v is None or af.group:
            consts = None
            break
        consts.append(v)
    if consts and not f.regions:
        has_result = bool(getattr(f, "results", None))
        call = f"{mn}.{n}({', '.join(consts + [f'{an}={lit}' for an, lit in req])})"
        body = f"    r = {call}\n    return r\n" if has_result else f"    {call}\n"
        out.append(("constant operands, result used", f"@{kind}\ndef main():\n{body}"))
        if any(c in ("CONST_SITES", "CONST_INTS", "CONST_FLOATS") for c in consts):
            # the same with every list operand a plain PYTHON list held by the module (what `list[int]` in a wrapper's signature invites)
            alt = [{"CONST_SITES": "PY_SITES", "CONST_INTS": "PY_INTS", "CONST_FLOATS": "PY_FLOATS"}.get(c, c) for c in consts]
            call = f"{mn}.{n}({', '.join(alt + [f'{an}={lit}' for an, lit in req])})"
            body = f"    r = {call}\n    return r\n" if has_result else f"    {call}\n"
            out.append(("constant operands (lists as module-level Python lists), result used", f"@{kind}\ndef main():\n{body}"))
        if any(c in ("CONST_GRID", "CONST_FILLED") for c in consts):
            # the same with every grid operand a VIEW of a filled grid held as a constant of the kernel
            alt = [{"CONST_GRID": "CONST_FILLED_VIEW", "CONST_FILLED": "CONST_FILLED_VIEW"}.get(c, c) for c in consts]
            call = f"{mn}.{n}({', '.join(alt + [f'{an}={lit}' for an, lit in req])})"
            body = f"    r = {call}\n    return r\n" if has_result else f"    {call}\n"
            out.append(("constant operands (views of a filled grid), result used", f"@{kind}\ndef main():\n{body}"))
    return out


TYPE_NS = {}
# operand type (by the prefix of its printed form) -> a valid constant of that type, as source text evaluated in the kernel's globals
CONST_OPERANDS = [("FilledGrid[", "CONST_FILLED"), ("Grid[", "CONST_GRID"), ("IList[tuple[int, int]", "CONST_SITES"), ("IList[int", "CONST_INTS"),
                  ("IList[float", "CONST_FLOATS"), ("tuple[int, int]", "(0, 1)"), ("int", "2"), ("float", "1.5")]


def const_ns():
    from bloqade.geometry.dialects.grid import Grid
    from bloqade.shuttle.dialects.filled.types import FilledGrid
    from kirin.dialects import ilist
    g = Grid.from_positions([0.0, 1.0, 2.5], [0.0, 2.0])
    from kirin import types
    return {"CONST_GRID": g, "CONST_FILLED": FilledGrid.vacate(g, [(0, 0)]), "CONST_FILLED_VIEW": FilledGrid.vacate(g, [(0, 0), (1, 1)])[0:2, 0:2], "CONST_FULL": FilledGrid.vacate(g, []),
            "CONST_SITES": ilist.IList([(0, 1), (2, 0)], elem=types.Tuple[types.Int, types.Int]),
            "CONST_INTS": ilist.IList([0, 1], elem=types.Int), "CONST_FLOATS": ilist.IList([0.0, 1.5], elem=types.Float),
            "PY_SITES": [(0, 1), (2, 0)], "PY_INTS": [0, 1], "PY_FLOATS": [0.0, 1.5]}


def try_define(src, **extra):
    from bloqade.geometry.dialects import grid as grid_mod
    from bloqade import shuttle
    ns = dict(kernel=shuttle.kernel, grid=grid_mod, atom=shuttle.atom)
    ns.update(TYPE_NS)
    ns.update(const_ns())
    ns.update(extra)
    try:
        kernels.define(src, **ns)
        return "accepted", ""
    except Exception as e:
        return "rejected", type(e).__name__ + ": " + str(e).strip().splitlines()[0][:100] if str(e).strip() else type(e).__name__


HISTORY_KERNELS = {
    "auto block calling a tweezer kernel directly": "    with schedule.auto():\n        kk(x, 2.0)\n        kk(1.0, y)\n",
    "parallel block of device calls": "    f = schedule.device_fn(kk, [0], [0])\n    with schedule.parallel():\n        f(x, 2.0)\n        schedule.reverse(f)(1.0, y)\n",
    "auto block of device calls": "    f = schedule.device_fn(kk, [0], [0])\n    with schedule.auto():\n        f(x, 2.0)\n        f(y, 1.0)\n",
    "device call, gate, fill, measurement": "    f = schedule.device_fn(kk, [0], [0])\n    f(x, y)\n    gate.global_rz(0.5)\n    init.fill([CONST_GRID])\n    measure.measure((CONST_GRID,))\n",
}


def definition_histories(ctx):
    """whether a kernel is accepted depends on its vocabulary, not on what was defined before it in the same process: the same accepted
    move kernels (scheduling blocks over ONE tweezer kernel, in every block form) defined again and again, in every order"""
    import itertools
    tw = DEVICE_CALL_SRC.split("@move")[0]
    try:
        kk = kernels.define(tw)["kk"]
    except Exception as e:
        ctx.obligation("the tweezer kernel of the definition histories is accepted", False, f"{type(e).__name__}: {e}"[:200])
        return
    names = list(HISTORY_KERNELS)
    n = 0
    for order in list(itertools.permutations(range(len(names)), 2)) + [(i, i) for i in range(len(names))]:
        hist = list(order) + [order[0]]
        for pos, i in enumerate(hist):
            src = "@move\ndef main(x: float, y: float):\n" + HISTORY_KERNELS[names[i]]
            got, err = try_define(src, kk=kk)
            ctx.evaluations += 1
            n += 1
            if got != "accepted":
                ctx.fail({"kind": "acceptance-depends-on-history", "kernel": names[i], "position": pos}, {"definition_history": [names[j] for j in hist], "position": pos},
                         f"@move kernel ({names[i]}) is rejected ({err}) as definition {pos} of the history {[names[j] for j in hist]}; its vocabulary is the documented one")
                break
        else:
            ctx.nt(("definition-history",) + tuple(order))
    ctx.count("move kernels defined in histories (every ordered pair of four block forms over one tweezer kernel, first one defined again)", n)
    # a definition that is REFUSED (whatever the reason: foreign vocabulary, an operand constant of the wrong kind, a type error) must not
    # change what the next definitions are answered: after each of them, one accepted kernel of every kind is defined again
    refused = {
        "tweezer with a gate": "@tweezer\ndef bad(x: float):\n    gate.global_rz(x)\n",
        "tweezer with an int where tones are selected": "@tweezer\ndef bad(x: float):\n    action.set_loc(grid.from_positions([x], [0.0]))\n    action.turn_on(0, [0, 1])\n",
        "tweezer with a tuple constant where tones are selected": "@tweezer\ndef bad(x: float):\n    action.set_loc(grid.from_positions([x], [0.0]))\n    action.turn_off(CONST_TUPLE, action.ALL)\n",
        "tweezer with a string where a grid is expected": "@tweezer\ndef bad(x: float):\n    action.set_loc(\"nowhere\")\n    action.move(3)\n",
        "move with a tone switch": "@move\ndef bad(x: float):\n    action.turn_on([0], [0])\n",
        "move with a call of an undefined name": "@move\ndef bad(x: float):\n    nothing_of_that_name(x)\n",
        "kernel with a schedule block": "@kernel\ndef bad(x: float):\n    with schedule.parallel():\n        ...\n",
        "move reversing a number": "@move\ndef bad(x: float):\n    schedule.reverse(3)(x)\n",
    }
    good = {
        "tweezer": "@tweezer\ndef good(a: float, b: float):\n    g = grid.from_positions([a, a + 2.0], [b])\n    action.set_loc(g)\n    action.turn_on(action.ALL, [0])\n    action.move(grid.shift(g, b, a))\n    action.turn_off([0, 1], action.ALL)\n",
        "move": "@move\ndef good(x: float, y: float):\n" + HISTORY_KERNELS["parallel block of device calls"] + "    gate.global_rz(0.5)\n",
        "kernel": "@kernel\ndef good(x: float):\n    gate.global_rz(x)\n    gate.top_hat_cz(CONST_GRID)\n",
    }
    n2 = 0
    baseline = {k: try_define(src, kk=kk) for k, src in good.items()}
    for k, (got, err) in baseline.items():
        if got != "accepted":
            ctx.obligation("the accepted kernels of the refusal histories are accepted in the first place", False, f"{k}: {err}")
            return
    for bname, bsrc in refused.items():
        outcome = try_define(bsrc, kk=kk, CONST_TUPLE=(0, 1))
        ctx.hist("refused definition", f"{bname}: {outcome[0]}")
        for k, src in good.items():
            ctx.evaluations += 1
            n2 += 1
            got, err = try_define(src, kk=kk)
            if got != "accepted":
                ctx.fail({"kind": "acceptance-depends-on-history", "kernel": k, "after": bname}, {"definition_history": [bname, k], "after_refusal": True},
                         f"@{k} kernel of documented vocabulary is rejected ({err}) when defined after the definition `{bname}` ({outcome[0]}: {outcome[1][:60]})")
                break
        else:
            ctx.nt(("after-refusal", bname))
    ctx.count("accepted kernels of every kind defined again after each of eight refused / odd definitions", n2)


def joined_constants(ctx):
    """kernels of documented vocabulary whose grid operand is chosen by a run-time branch between CONSTANTS of one geometry (a zone, a filled
    copy of it, a view of the filled copy): accepted by every kind that accepts the statement"""
    uses = {"move": ["gate.top_hat_cz(z)", "gate.local_rz(0.5, z)", "measure.measure((z,))", "init.fill([z])", "r = filled.vacate(z, [(0, 1)])", "r = grid.shift(z, 1.0, 0.0)"],
            "kernel": ["gate.top_hat_cz(z)", "gate.local_r(0.5, 0.25, z)", "r = filled.fill(z, [(0, 1)])", "r = grid.shape(z)"],
            "tweezer": ["action.set_loc(z)", "r = filled.vacate(z, [(1, 1)])", "r = grid.sub_grid(z, [0], [0, 1])"]}
    pairs = [("CONST_FILLED", "CONST_GRID"), ("CONST_GRID", "CONST_FILLED"), ("CONST_FULL", "CONST_GRID"), ("CONST_FILLED", "CONST_FULL")]
    n = 0
    for kind, stmts in uses.items():
        for a, b in pairs:
            for st in stmts:
                src = f"@{kind}\ndef main(c: bool):\n    if c:\n        z = {a}\n    else:\n        z = {b}\n    {st}\n"
                got, err = try_define(src)
                ctx.evaluations += 1
                n += 1
                if got != "accepted":
                    ctx.fail({"kind": kind, "got": "rejected", "documented": "accept", "form": "operand chosen by a branch between constants of one geometry", "stmt": st.split("(")[0]},
                             {"src": src, "expected": "accepted"},
                             f"@{kind} kernel applying {st} to a grid chosen by a branch between {a} and {b} was rejected ({err}); the documented vocabulary says accept")
                else:
                    ctx.nt(("joined-constants", kind, a, b, st))
    ctx.count("kernels whose grid operand is a branch between constants of one geometry (zone / filled copy / completely filled copy)", n)


def arch_spec_device_forms(ctx):
    """kernels of documented vocabulary whose device calls are evaluated while the kernel is DEFINED (@move(arch_spec=S), every argument a
    constant): keyword arguments in another order than the parameters inside a parallel block (operands of different types), and a tweezer
    kernel reading constants of the spec whose value is 0 / 0.0 - accepted, like the same kernels without a spec"""
    from gen import tweezer_prog
    S = tweezer_prog.harness_spec()
    tw = ("@tweezer\ndef kg(zone: grid.Grid[Any, Any], dx: float):\n    action.set_loc(zone)\n    action.move(grid.shift(zone, dx, 0.0))\n\n"
          "@tweezer\ndef kzero(a: float):\n    g = grid.from_positions([a + spec.get_float_constant(constant_id=\"origin\")], [1.0 * spec.get_int_constant(constant_id=\"zero\")])\n"
          "    action.set_loc(g)\n    action.move(grid.shift(g, spec.get_float_constant(constant_id=\"origin\"), 1.0))\n")
    try:
        ks = kernels.define(tw)
    except Exception as e:
        ctx.obligation("the tweezer kernels of the definition-time device forms are accepted", False, f"{type(e).__name__}: {e}"[:200])
        return
    bodies = {
        "keywords out of order in a parallel block": "    dev = schedule.device_fn(kg, [0, 1, 2], [0, 1])\n    with schedule.parallel():\n        dev(dx=2.0, zone=CONST_GRID)\n        dev(CONST_GRID, dx=1.0)\n",
        "keywords out of order in an auto block": "    dev = schedule.device_fn(kg, [0, 1, 2], [0, 1])\n    with schedule.auto():\n        dev(dx=2.0, zone=CONST_GRID)\n",
        "keywords out of order outside a block": "    dev = schedule.device_fn(kg, [0, 1, 2], [0, 1])\n    dev(dx=2.0, zone=CONST_GRID)\n    schedule.reverse(dev)(dx=0.5, zone=CONST_GRID)\n",
        "a tweezer kernel reading zero-valued constants": "    f = schedule.device_fn(kzero, [0], [0])\n    f(1.0)\n    with schedule.parallel():\n        f(2.0)\n        schedule.reverse(f)(a=3.0)\n",
    }
    n = 0
    for name, body in bodies.items():
        for dec in ("", "(arch_spec=S)", "(arch_spec=S, fold=False)", "(arch_spec=S, aggressive=True)"):
            src = f"@move{dec}\ndef main():\n" + body
            got, err = try_define(src, S=S, kg=ks["kg"], kzero=ks["kzero"])
            ctx.evaluations += 1
            n += 1
            if got != "accepted":
                ctx.fail({"kind": "move", "got": "rejected", "documented": "accept", "form": "device calls evaluated at definition: " + name, "decorator": dec},
                         {"src": src, "expected": "accepted", "definition_time_device_forms": True},
                         f"@move{dec} kernel ({name}) was rejected ({err}); its vocabulary is the documented one")
            else:
                ctx.nt(("definition-time-device-forms", name, dec))
    ctx.count("kernels whose device calls are evaluated at definition (keywords out of order in blocks, zero-valued constants) x 4 decorators", n)


def option_specs():
    """specs for the decorators' arch_spec= option; the literal name "traps" (what one_statement_kernels writes for a string attribute) is
    known under every lookup kind / only as a special grid and an int constant / only as a static trap and a float constant / not at all"""
    from bloqade.geometry.dialects.grid import Grid
    from bloqade.shuttle.arch import ArchSpec, Layout
    g, h = Grid.from_positions([0.0, 1.0, 2.5], [0.0, 2.0]), Grid.from_positions([10.0, 11.0], [5.0])
    return {"name known under every kind": ArchSpec(layout=Layout({"traps": g}, {"traps"}, {"traps"}, {"traps"}, special_grid={"traps": h}), float_constants={"traps": 1.5}, int_constants={"traps": 3}),
            "name known as special grid and int constant only": ArchSpec(layout=Layout({"zone": g}, {"zone"}, {"zone"}, {"zone"}, special_grid={"traps": h}), float_constants={}, int_constants={"traps": 3}),
            "name known as static trap and float constant only": ArchSpec(layout=Layout({"traps": g}, {"traps"}, {"traps"}, {"traps"}, special_grid={}), float_constants={"traps": 0.0}, int_constants={}),
            "empty spec": ArchSpec()}


DEVICE_CALL_SRC = """
@tweezer
def kk(a: float, b: float):
    g = grid.from_positions([a, a + 2.0], [b])
    action.set_loc(g)
    action.move(grid.shift(g, b, a))

@move{DEC}
def main(x: float, y: float):
    z = spec.get_static_trap(zone_id="traps")
    f = schedule.device_fn(kk, [0, 1], [0])
    f({A}, {B})
"""


def arch_spec_option(ctx, ws, wcat):
    """every accepted (wrapper, kind) cell again with the decorator's arch_spec= option, for four specs; and move kernels that call a device
    function with every mix of operands known / not known at definition: what a kernel kind accepts is a matter of vocabulary"""
    specs = option_specs()
    n = 0
    for (mn, nme, b, d), c in zip(ws, wcat):
        for ki, kind in enumerate(KINDS):
            if not POLICY[c][ki]:
                continue
            variants = [v for v in one_statement_kernels(kind, mn, nme, b) if v[0] in ("required arguments only", "constant operands, result used")]
            for form, src in variants:
                base, why0 = try_define(src)
                if base != "accepted":
                    continue            # judged (or excused as argument synthesis) by the plain matrix
                for sname, SP in specs.items():
                    if mn != "spec" and sname not in ("name known under every kind", "empty spec"):
                        continue
                    src2 = src.replace(f"@{kind}\n", f"@{kind}(arch_spec=SPEC)\n", 1)
                    got, why = try_define(src2, SPEC=SP)
                    ctx.evaluations += 1
                    n += 1
                    if got != "accepted":
                        ctx.fail({"wrapper": f"{mn}.{nme}", "kind": kind, "got": got, "documented": "accept", "option": "arch_spec", "spec": sname},
                                 {"src": src2, "expected": "accepted", "option_spec": sname},
                                 f"@{kind}(arch_spec=...) ({sname}) {got} a kernel using {mn}.{nme} ({form}) that @{kind} accepts: {why}")
                    else:
                        ctx.nt((mn, nme, kind, form, "arch_spec", sname))
    ctx.count("accepted cells re-defined with the arch_spec= option", n)
    SP = specs["name known under every kind"]
    m = 0
    operands = {"literal": ("1.0", "2.0"), "parameter": ("x", "y"), "from a spec lookup": ('spec.get_float_constant(constant_id="traps")', 'spec.get_float_constant(constant_id="traps") * 2.0'),
                "computed from a parameter": ("x + 1.0", "y * 2.0")}
    for (ka, (a, _)), (kb, (_, bb)) in itertools.product(operands.items(), repeat=2):
        for dec in ("", "(fold=False)", "(arch_spec=SPEC)", "(arch_spec=SPEC, fold=False)", "(arch_spec=SPEC, aggressive=True)"):
            for kw in (False, True):
                src = DEVICE_CALL_SRC.replace("{DEC}", dec).replace("{A}", ("a=" if kw else "") + a).replace("{B}", ("b=" if kw else "") + bb)
                got, why = try_define(src, SPEC=SP)
                ctx.evaluations += 1
                m += 1
                if got != "accepted":
                    ctx.fail({"wrapper": "schedule.device_fn + call", "kind": "move", "got": got, "documented": "accept", "option": dec, "operands": [ka, kb]},
                             {"src": src, "expected": "accepted", "option_spec": "name known under every kind"},
                             f"@move{dec} {got} a move kernel that calls a device function with operands ({ka}, {kb}): {why}")
                else:
                    ctx.nt(("device-call", ka, kb, dec, kw))
    ctx.count("move kernels calling a device function with every mix of known / unknown operands x decorator options", m)
    # move kernels whose ONLY scheduling vocabulary is the call of a device function they got from outside (a parameter, forward or
    # reversed, or the result of a helper kernel), next to other accepted vocabulary
    outside = {"parameter annotated schedule.DeviceFunction": ("f: schedule.DeviceFunction, x: float", "    f(x, 2.0)\n"),
               "parameter annotated schedule.ReverseDeviceFunction": ("f: schedule.ReverseDeviceFunction, x: float", "    f(x, 2.0)\n"),
               "result of a helper kernel": ("x: float", "    f = make_dev()\n    f(x, 2.0)\n"),
               "parameter, next to a gate and a lookup": ("f: schedule.DeviceFunction, x: float", "    z = spec.get_static_trap(zone_id=\"traps\")\n    gate.top_hat_cz(z)\n    f(x, 2.0)\n"),
               "parameter, called twice with keywords": ("f: schedule.DeviceFunction, x: float", "    f(b=x, a=2.0)\n    f(a=x, b=x)\n")}
    helper = ("@tweezer\ndef kk(a: float, b: float):\n    action.set_loc(grid.from_positions([a], [b]))\n\n"
              "@move\ndef make_dev():\n    return schedule.device_fn(kk, [0], [0])\n\n")
    for label, (sig, body) in outside.items():
        for dec in ("", "(fold=False)", "(arch_spec=SPEC)"):
            src = helper + f"@move{dec}\ndef main({sig}):\n{body}"
            got, why = try_define(src, SPEC=SP)
            ctx.evaluations += 1
            if got != "accepted":
                ctx.fail({"wrapper": "call of a device function from outside", "kind": "move", "got": got, "documented": "accept", "option": dec, "case": label},
                         {"src": src, "expected": "accepted", "option_spec": "name known under every kind"},
                         f"@move{dec} {got} a move kernel that plays a device function it received from outside ({label}): {why}")
            else:
                ctx.nt(("device-function-from-outside", label, dec))
    # a CLOSURE handed out by a tweezer kernel as the move function of a device function (the tracer accepts closures)
    try:
        from bloqade.shuttle.codegen.taskgen import TraceInterpreter
        outer = kernels.define("@tweezer\ndef outer():\n    def inner(a: float, b: float):\n        action.set_loc(grid.from_positions([a], [b]))\n    return inner\n")["outer"]
        CLO = TraceInterpreter(tweezer_prog.harness_spec()).run(outer, ())
        for dec in ("", "(fold=False)", "(arch_spec=SPEC)"):
            for body in ("    f = schedule.device_fn(CLO, [0], [0])\n    f(x, 2.0)\n", "    f = schedule.device_fn(CLO, [0], [0])\n    schedule.reverse(f)(1.0, 2.0)\n"):
                src = f"@move{dec}\ndef main(x: float):\n{body}"
                got, why = try_define(src, SPEC=SP, CLO=CLO)
                ctx.evaluations += 1
                if got != "accepted":
                    ctx.fail({"wrapper": "schedule.device_fn over a closure", "kind": "move", "got": got, "documented": "accept", "option": dec},
                             {"src": src, "expected": "accepted", "option_spec": "name known under every kind", "needs": "CLO = the closure a tweezer kernel returns"},
                             f"@move{dec} {got} a move kernel whose device function wraps a closure returned by a tweezer kernel: {why}")
                else:
                    ctx.nt(("device-fn-over-closure", dec, body))
    except Exception as e:
        ctx.obligation("a closure can be obtained from a tweezer kernel", False, f"{type(e).__name__}: {e}"[:200])
    # compositions of the filled-grid vocabulary over constants (a zone with vacancies, a view of it, a COMPLETELY filled zone): what one
    # wrapper hands out is a legal operand of the next, for every kernel kind
    firsts = {"shift": "filled.shift({C}, 1.0, 0.0)", "scale": "filled.scale({C}, 2.0, 1.0)", "repeat": "filled.repeat({C}, 2, 1, 30.0, 1.0)", "vacate": "filled.vacate({C}, [(0, 0)])",
              "fill": "filled.fill({C}, [(0, 0), (1, 1)])", "sub_grid": "grid.sub_grid({C}, [0, 1], [0])", "itself": "{C}"}
    seconds = {"get_parent": "filled.get_parent(r1)", "shift": "filled.shift(r1, 0.5, 0.5)", "vacate": "filled.vacate(r1, [(1, 0)])", "repeat": "filled.repeat(r1, 1, 2, 1.0, 30.0)",
               "positions": "grid.positions(r1)", "index": "r1[0:1, 0:1]"}
    k = 0
    for cname in ("CONST_FILLED", "CONST_FILLED_VIEW", "CONST_FULL"):
        for (fn, f1), (sn, f2) in itertools.product(firsts.items(), seconds.items()):
            for kind in KINDS:
                src = f"@{kind}\ndef main():\n    r1 = {f1.replace('{C}', cname)}\n    r2 = {f2}\n    return r2\n"
                got, why = try_define(src)
                ctx.evaluations += 1
                k += 1
                if got != "accepted" and not (why.startswith("TypeCheckError") and kind != "tweezer"):
                    ctx.fail({"wrapper": f"filled composition {fn} then {sn}", "kind": kind, "got": got, "documented": "accept", "constant": cname},
                             {"src": src, "expected": "accepted"}, f"@{kind} {got} a kernel composing {fn} and {sn} over the constant {cname}: {why}")
                else:
                    ctx.nt(("filled-composition", cname, fn, sn, kind))
    ctx.count("compositions of two filled-grid wrappers over three kinds of constants x kernel kinds", k)


def run(ctx):
    from bloqade.shuttle.prelude import kernel, move, tweezer
    groups = {"tweezer": tweezer, "move": move, "kernel": kernel}
    ws = wrappers()
    ctx.rule = ("every public wrapper (kirin Binding) of every dialect _interface module and of the geometry grid interface, enumerated by "
                "reflection, x the three decorators: a one-statement kernel is defined (operands = untyped kernel parameters) and acceptance vs "
                "rejection at definition is compared with the documented matrix; non-trivial = distinct (wrapper, kind) pairs")
    ctx.exhaustive = True
    gcats = {k: sorted({CAT[d.name] for d in g.data if d.name in CAT}) for k, g in groups.items()}
    wcat = [MODCAT[mn] for mn, _, _, _ in ws]
    stray = [f"{mn}.{n} wraps a statement of dialect {d!r}" for mn, n, _, d in ws if POLICY[CAT.get(d, "COther")] != POLICY[MODCAT[mn]]]
    ctx.obligation("every public wrapper wraps a statement registered with a dialect of its interface's category", not stray, "; ".join(stray[:4]))
    # ---- reflected tables + finite lemma ----
    body = coqrun.HEADER + "From BS Require Import Model.Vocab.\n"
    body += "Definition group (k : kind) : list cat := match k with\n" + "".join(
        f"  | K{k.capitalize()} => {clist(gcats[k])}\n" for k in KINDS) + "  end.\n"
    body += "(* one entry per public wrapper: the category of the dialect of the statement it wraps *)\n"
    body += f"Definition wrappers : list cat := {clist(wcat)}.\n"
    body += "Lemma vocab_exact_ok : vocab_exact group wrappers = true.\nProof. vm_compute. reflexivity. Qed.\n"
    ok, log = coqrun.compile_lemma_file(ctx.bdir, "Gen_C17", body)
    ctx.obligation(f"Gen_C17: vocab_exact_ok over {len(ws)} reflected wrappers x 3 reflected dialect groups", ok, log[-600:])
    for mn, n, why in interface_gaps():
        # a concrete failing kernel: the documented kind for that interface must accept a use of the name
        accept_kind = [k for ki, k in enumerate(KINDS) if POLICY[MODCAT[mn]][ki]][-1]
        fn = n if n.islower() else {"Move": "move", "Measure": "measure", "New": "new", "MoveNextTo": "move_next_to", "ResetPosition": "reset_position"}.get(n, n.lower())
        src = f"@{accept_kind}\ndef main(a0, a1):\n    {mn}.{fn}(a0, a1)\n"
        got, msg = try_define(src)
        ctx.fail({"wrapper": f"{mn}.{n}", "kind": "interface-gap"}, {"src": src, "expected": "accepted", "outcome": got + " " + msg},
                 f"{mn}._interface: {n}: {why}; an @{accept_kind} kernel using {mn}.{fn} is {got} ({msg})")
    ctx.extra["reflected_groups"] = gcats
    ctx.extra["reflected_wrappers"] = [f"{mn}.{n} -> {d}" for mn, n, _, d in ws]
    # ---- behaviour: define one-statement kernels ----
    acc_rows, unsynth = [], []
    for (mn, n, b, d), c in zip(ws, wcat):
        for ki, kind in enumerate(KINDS):
            variants = one_statement_kernels(kind, mn, n, b)
            want = POLICY[c][ki]
            if not variants:
                unsynth.append(f"{mn}.{n}")
                continue
            in_group = c in gcats[kind]
            for form, src in variants:
                got, why = try_define(src)
                ctx.evaluations += 1
                ctx.nt((mn, n, kind, form))
                ctx.hist("outcome", f"{kind}:{got}")
                if form == "required arguments only":
                    acc_rows.append((c, kind, got == "accepted"))
                if (got == "accepted") != want:
                    # @move and @kernel verify operand types, so an untyped operand may be refused there for typing reasons;
                    # @tweezer does not verify types: a TypeCheckError from it is a refusal of the statement
                    if got == "rejected" and want and in_group and why.startswith("TypeCheckError") and kind != "tweezer" and (
                            form == "required arguments only" or form.startswith("only operand") or form.startswith("all but operand")
                            or form.startswith("constant operands")):
                        ctx.hist("outcome", "acceptance side not exercised (argument synthesis)")
                        ctx.extra.setdefault("acceptance_not_exercised", []).append(f"{kind}: {mn}.{n}: {why}")
                        continue
                    ctx.fail({"wrapper": f"{mn}.{n}", "kind": kind, "got": got, "documented": "accept" if want else "reject", "form": form},
                             {"src": src, "expected": "accepted" if want else "rejected"},
                             f"@{kind} kernel using {mn}.{n} ({form}; dialect {d}) was {got} ({why}); the documented vocabulary says {'accept' if want else 'reject'}")
            if mn == "schedule" and kind == "move" and len(ctx.samples) < 2:
                ctx.sample({"kernel": src, "outcome": got})
    if unsynth:
        ctx.extra["wrappers_without_synthesised_arguments"] = sorted(set(unsynth))
    # behavioural acceptance table as a Coq lemma as well
    body = coqrun.HEADER + "From BS Require Import Model.Vocab.\n"
    body += "Definition observed : list (cat * kind * bool) := " + clist(
        [f"({c}, K{k.capitalize()}, {'true' if a else 'false'})" for c, k, a in acc_rows
         if not (not a and POLICY[c][KINDS.index(k)])]) + ".\n"
    body += ("Lemma observed_is_policy : forallb (fun e => match e with (c, k, a) => Bool.eqb a (policy k c) end) observed = true.\n"
             "Proof. vm_compute. reflexivity. Qed.\n")
    ok, log = coqrun.compile_lemma_file(ctx.bdir, "Gen_C17_observed", body)
    ctx.obligation("Gen_C17_observed: accept/reject observed at definition time = Model.Vocab.policy", ok, log[-600:])
    # ---- what a kernel kind accepts does not depend on which definitions were attempted before ----
    bad = ("@move\ndef main():\n    with schedule.parallel():\n        gate.global_rz(1.0)\n", "@move\ndef main(a0):\n    action.set_loc(a0)\n")
    for b in bad:
        try_define(b)            # refused (inside the schedule-to-path pipeline / at lowering); the outcome itself is not judged here
    n_again = 0
    for (mn, n, b, d), c in zip(ws, wcat):
        for ki, kind in enumerate(KINDS):
            if not POLICY[c][ki]:
                continue
            for form, src in one_statement_kernels(kind, mn, n, b)[:1]:
                first = next((a for cc, kk, a in acc_rows if False), None)
                got, why = try_define(src)
                n_again += 1
                ctx.evaluations += 1
                if got != "accepted" and not (why.startswith("TypeCheckError") and kind != "tweezer"):
                    ctx.fail({"wrapper": f"{mn}.{n}", "kind": kind, "got": got, "documented": "accept", "history": "after refused definitions"},
                             {"src": src, "expected": "accepted", "history": list(bad) + [src]},
                             f"@{kind} kernel using {mn}.{n} is {got} ({why}) when defined after other kernels were refused")
    ctx.count("accepted cells re-defined after refused definitions", n_again)
    # ---- the decorators' arch_spec= option does not change the vocabulary ----
    arch_spec_option(ctx, ws, wcat)
    definition_histories(ctx)
    joined_constants(ctx)
    arch_spec_device_forms(ctx)
    # ---- the tracer's guard ----
    S = tweezer_prog.harness_spec()
    from bloqade.shuttle.codegen.taskgen import TraceInterpreter
    tw = kernels.define("@tweezer\ndef main():\n    action.set_loc(grid.from_positions([0.0], [0.0]))\n")["main"]
    mv = kernels.define("@move\ndef main():\n    gate.global_rz(1.0)\n")["main"]
    from bloqade import shuttle
    kr = kernels.define("@kernel\ndef main():\n    gate.global_rz(1.0)\n", kernel=shuttle.kernel)["main"]
    outer = kernels.define("@tweezer\ndef main():\n    def inner():\n        action.set_loc(grid.from_positions([0.0], [0.0]))\n    return inner\n")["main"]
    clo = TraceInterpreter(S).run(outer, ())
    # functions of other dialect groups (kirin's own `structural` group, and a hand-made group of action + grid without the tweezer pipeline)
    others = []
    try:
        from kirin.prelude import structural
        from bloqade.geometry.dialects import grid as grid_mod
        from bloqade.shuttle.dialects import action as action_d
        others.append(("plain function of kirin's structural group", kernels.define("@structural\ndef main():\n    return 1\n", structural=structural)["main"]))
        mixed = structural.union([action_d.dialect, grid_mod.dialect])
        others.append(("function of a group with the action dialect but not compiled by @tweezer",
                       kernels.define("@mixed\ndef main():\n    action.set_loc(grid.from_positions([0.0], [0.0]))\n", mixed=mixed)["main"]))
    except Exception as e:
        ctx.extra["tracer_guard_other_groups"] = f"could not build: {type(e).__name__}: {e}"[:200]
    guard = {}
    for name, m in [("tweezer kernel", tw), ("closure", clo), ("move kernel", mv), ("atom-level kernel", kr)] + others:
        try:
            r = TraceInterpreter(S).run_trace(m, (), {})
            guard[name] = "traced"
        except ValueError as e:
            guard[name] = "refused"
        except Exception as e:
            guard[name] = "other:" + type(e).__name__
        ctx.evaluations += 1
    want = {"tweezer kernel": "traced", "closure": "traced", "move kernel": "refused", "atom-level kernel": "refused"}
    want.update({n: "refused" for n, _ in others})
    ctx.extra["tracer_guard"] = guard
    body = coqrun.HEADER + "From BS Require Import Model.Vocab.\n"
    cb = lambda v: "true" if v == "traced" else "false"
    body += (f"Definition observed_guard : list (code * bool) := [(CodeTweezer, {cb(guard['tweezer kernel'])}); (CodeLambda, {cb(guard['closure'])}); "
             f"(CodeMove, {cb(guard['move kernel'])}); (CodeKernel, {cb(guard['atom-level kernel'])})].\n"
             "Lemma guard_ok : forallb (fun e => Bool.eqb (snd e) (tracer_admits (fst e))) observed_guard = true.\nProof. vm_compute. reflexivity. Qed.\n")
    ok, log = coqrun.compile_lemma_file(ctx.bdir, "Gen_C17_guard", body)
    ctx.obligation("Gen_C17_guard: run_trace admits exactly tweezer kernels and closures", ok, log[-400:])
    for k, v in guard.items():
        if v != want[k]:
            ctx.fail({"site": "run_trace guard", "code": k, "got": v}, {"code": k}, f"run_trace on a {k}: {v}, expected {want[k]}")
    ctx.explanation = ("finite property: policy matrix theorems + soundness of the finite check; tables (dialect groups, wrappers and their "
                       "dialects) reflected from the live objects on every run and re-checked by vm_compute lemmas; behaviour observed by defining "
                       "one-statement kernels for every wrapper x decorator")


def replay(data):
    if data["input"].get("definition_time_device_forms"):
        class C:
            def __init__(s): s.fails, s.evaluations = [], 0
            def fail(s, sig, rep, what):
                if rep["src"] == data["input"]["src"]: s.fails.append(what)
            def nt(s, *a): pass
            def count(s, *a): pass
            def obligation(s, n, ok, log=""):
                if not ok: s.fails.append(n)
        c = C()
        arch_spec_device_forms(c)
        return bool(c.fails), (c.fails or ["accepted"])[0][:200]
    if "definition_history" in data["input"]:
        class C:
            def __init__(s): s.fails, s.evaluations = [], 0
            def fail(s, sig, rep, what): s.fails.append(what)
            def nt(s, *a): pass
            def count(s, *a): pass
            def obligation(s, n, ok, log=""):
                if not ok: s.fails.append(n)
        c = C()
        definition_histories(c)
        return bool(c.fails), (c.fails or ["every definition of the history is accepted"])[0][:200]
    inp = data["input"]
    if "src" not in inp:
        return True, "re-run bin/check C17 (guard table)"
    for mn, n, b, d in wrappers():          # fills the table of declared operand types the annotated forms refer to
        one_statement_kernels("move", mn, n, b)
    extra = {"SPEC": option_specs()[inp["option_spec"]]} if inp.get("option_spec") else {}
    if inp.get("needs"):
        from bloqade.shuttle.codegen.taskgen import TraceInterpreter
        outer = kernels.define("@tweezer\ndef outer():\n    def inner(a: float, b: float):\n        action.set_loc(grid.from_positions([a], [b]))\n    return inner\n")["outer"]
        extra["CLO"] = TraceInterpreter(tweezer_prog.harness_spec()).run(outer, ())
    got, why = try_define(inp["src"], **extra)
    return got != inp["expected"], f"{got} ({why}), documented: {inp['expected']}"
