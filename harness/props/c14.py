"""C14 - library architecture builders produce the documented geometry."""
import itertools
import warnings
from fractions import Fraction

from vcommon import coqrun
from vcommon.coqrun import cQ, clist, cnat

from props.c12 import fq, show_grid

COQ_IMPORT = "From BS Require Import Core.Show Core.Base Core.GridQ Model.Arch Model.Builders.\n"


def show_zone(name, g):
    from bloqade.geometry.dialects.grid.types import SubGrid
    s = f"{name}={show_grid(g)}"
    if isinstance(g, SubGrid):
        s += (f" view-of {show_grid(g.parent)} x[" + ",".join(str(int(i)) for i in g.x_indices) + "] y["
              + ",".join(str(int(i)) for i in g.y_indices) + "]")
    return s


def show_spec(S):
    L = S.layout
    out = [show_zone(n, g) for n, g in L.static_traps.items()]
    out += ["special " + show_zone(n, g) for n, g in L.special_grid.items()]
    out.append("fillable [" + ",".join(sorted(L.fillable)) + "]")
    out.append("has_cz [" + ",".join(sorted(L.has_cz)) + "]")
    out.append("has_local [" + ",".join(sorted(L.has_local)) + "]")
    out.append("float [" + ",".join(f"({k},{fq(v)})" for k, v in S.float_constants.items()) + "]")
    out.append("int [" + ",".join(f"({k},{int(v)})" for k, v in S.int_constants.items()) + "]")
    return out


def sites(g):
    return list(g.positions)


# the documented Gemini logical geometry: block -> (parent zone, x index range, y index range)
R = lambda a, b, c=1: list(range(a, b, c))
GEMINI_DOC = {
    "left_gate_zone_sites": ("gate_zone", R(0, 34, 2), R(0, 5)),
    "right_gate_zone_sites": ("gate_zone", R(1, 34, 2), R(0, 5)),
    "GL0_block": ("gate_zone", R(4, 18, 2), R(0, 5)), "GL1_block": ("gate_zone", R(18, 32, 2), R(0, 5)),
    "GR0_block": ("gate_zone", R(5, 19, 2), R(0, 5)), "GR1_block": ("gate_zone", R(19, 33, 2), R(0, 5)),
    "GL_blocks": ("gate_zone", R(4, 32, 2), R(0, 5)), "GR_blocks": ("gate_zone", R(5, 33, 2), R(0, 5)),
    "SL0_block": ("top_reservoir", R(4, 18, 2), R(8, 18, 2)), "SR0_block": ("top_reservoir", R(5, 19, 2), R(8, 18, 2)),
    "SL1_block": ("top_reservoir", R(18, 32, 2), R(8, 18, 2)), "SR1_block": ("top_reservoir", R(19, 33, 2), R(8, 18, 2)),
    "ML0_block": ("bottom_reservoir", R(4, 18, 2), R(2, 12, 2)), "MR0_block": ("bottom_reservoir", R(5, 19, 2), R(2, 12, 2)),
    "ML1_block": ("bottom_reservoir", R(18, 32, 2), R(2, 12, 2)), "MR1_block": ("bottom_reservoir", R(19, 33, 2), R(2, 12, 2)),
}


def oracle_single(ctx, name, S, nx, ny, s, rep):
    g = S.layout.static_traps.get("traps")
    want = [(i * s, j * s) for i in range(nx) for j in range(ny)]
    if g is None or sites(g) != want or tuple(g.shape) != (nx, ny):
        ctx.fail({"builder": name, "problem": "sites"}, rep, f"{name}({nx},{ny},{s}): zone 'traps' is not {nx}x{ny} sites at spacing {s} from the origin")
    caps_ok(ctx, name, S, rep)


def caps_ok(ctx, name, S, rep):
    L = S.layout
    names = set(L.static_traps) | set(L.special_grid)
    for cap, st in (("fillable", L.fillable), ("has_cz", L.has_cz), ("has_local", L.has_local)):
        if not set(st) <= names:
            ctx.fail({"builder": name, "problem": "capability names a missing zone", "cap": cap}, rep,
                     f"{name}: {cap} names {sorted(set(st) - names)} which are not zones")


def oracle_two_col(ctx, S, nx, ny, s, gs, rep):
    name = "two_col_zone.get_spec"
    L = S.layout
    t, l, r = (L.static_traps.get(k) for k in ("traps", "left_traps", "right_traps"))
    if t is None or l is None or r is None:
        ctx.fail({"builder": name, "problem": "missing zone"}, rep, f"{name}: traps/left_traps/right_traps missing")
        return
    pitch = gs + s
    wl = [(i * pitch, j * s) for i in range(nx) for j in range(ny)]
    wr = [(i * pitch + gs, j * s) for i in range(nx) for j in range(ny)]
    if sites(l) != wl or sites(r) != wr:
        ctx.fail({"builder": name, "problem": "left/right sites"}, rep,
                 f"{name}({nx},{ny},{s},{gs}): left/right traps are not {nx}x{ny} pairs separated by the gate spacing")
    if sorted(sites(t)) != sorted(wl + wr) or len(set(sites(l)) & set(sites(r))) != 0 and gs > 0:
        ctx.fail({"builder": name, "problem": "partition"}, rep, f"{name}({nx},{ny},{s},{gs}): left and right traps do not partition the zone")
    from bloqade.geometry.dialects.grid.types import SubGrid
    for z in (l, r):
        if not isinstance(z, SubGrid) or not (z.parent == t):
            ctx.fail({"builder": name, "problem": "not a view"}, rep, f"{name}: left/right traps are not views of the zone")
    caps_ok(ctx, name, S, rep)


def oracle_gemini(ctx, base, logical):
    from bloqade.geometry.dialects.grid.types import SubGrid
    from kirin.dialects import ilist
    rep = {"builder": "gemini"}
    gz = base.layout.static_traps["gate_zone"]
    # gate zone: 17 pairs (2.0 apart) at pitch 10.0, 5 rows 10.0 apart, centred
    wx = [-81.0 + 10.0 * i + d for i in range(17) for d in (0.0, 2.0)]
    wy = [-20.0 + 10.0 * j for j in range(5)]
    if list(gz.x_positions) != wx or list(gz.y_positions) != wy:
        ctx.fail({"builder": "gemini.base", "problem": "gate_zone"}, rep, "gate_zone is not 17 pairs x 5 rows at the documented coordinates")
    for nm, y0 in (("top_reservoir", 30.0), ("bottom_reservoir", -30.0 - 4.0 * 18)):
        g = base.layout.static_traps[nm]
        rx = [-87.0 + 10.0 * i + d for i in range(17) for d in (0.0, 6.0)]
        ry = [y0 + 4.0 * j for j in range(19)]
        if list(g.x_positions) != rx or list(g.y_positions) != ry:
            ctx.fail({"builder": "gemini.base", "problem": nm}, rep, f"{nm} is not the documented reservoir")
    aom = base.layout.special_grid["aom_sites"]
    if list(aom.x_positions) != [x - 2.0 for x in wx[::2]] or list(aom.y_positions) != wy:
        ctx.fail({"builder": "gemini.base", "problem": "aom_sites"}, rep, "aom_sites are not the left gate sites shifted by the gate spacing")
    L = logical.layout
    for nm, (par, xi, yi) in GEMINI_DOC.items():
        z = L.static_traps.get(nm)
        p = L.static_traps[par]
        want = p.get_view(ilist.IList(xi), ilist.IList(yi))
        ok = z is not None and isinstance(z, SubGrid) and z.parent == p and list(z.x_indices) == xi and list(z.y_indices) == yi and z == want
        if not ok:
            ctx.fail({"builder": "gemini.logical", "problem": "block", "block": nm}, rep, f"{nm} is not the documented view of {par}")
        elif nm.endswith("_block") and tuple(z.shape) != (7, 5):
            ctx.fail({"builder": "gemini.logical", "problem": "block size", "block": nm}, rep, f"{nm} is not 7x5")
    for nm, lo in (("AOM0_block", 2), ("AOM1_block", 9)):
        z = L.special_grid.get(nm)
        if z is None or not isinstance(z, SubGrid) or not (z.parent == aom) or list(z.x_indices) != list(range(lo, lo + 7)) or list(z.y_indices) != list(range(5)):
            ctx.fail({"builder": "gemini.logical", "problem": "block", "block": nm}, rep, f"{nm} is not the documented view of aom_sites")
    caps_ok(ctx, "gemini.base", base, rep)
    caps_ok(ctx, "gemini.logical", logical, rep)
    ic, fc = logical.int_constants, logical.float_constants
    gl0 = L.static_traps["GL0_block"]
    facts = [(ic.get("logical_rows") == gl0.shape[1], "logical_rows = rows of GL0_block"),
             (ic.get("code_size") == gl0.shape[0], "code_size = columns of a block"),
             (ic.get("logical_cols") == 2, "logical_cols = 2 blocks per side"),
             (fc.get("row_separation") == gz.y_spacing[0], "row_separation = row spacing of gate_zone"),
             (fc.get("gate_spacing") == gz.x_spacing[0], "gate_spacing = pair spacing of gate_zone"),
             (fc.get("col_separation") == gz.x_spacing[1], "col_separation = spacing between pairs of gate_zone")]
    for ok, what in facts:
        if not ok:
            ctx.fail({"builder": "gemini.logical", "problem": "constant", "fact": what}, rep, f"published constant disagrees with the geometry: {what}")


def build(ctx, name, fn, args, rep):
    """a builder must return a spec for every size >= 1 and every positive spacing"""
    try:
        return fn(*args)
    except Exception as e:
        ctx.fail({"builder": name, "problem": "raises on a documented input", "error": type(e).__name__}, dict(rep, builder=name),
                 f"{name}{args} raises {type(e).__name__}: {str(e)[:120]} although every size >= 1 and positive spacing is documented as valid")
        return None


def inexact_spacing_cases(ctx):
    """spacings that are not binary fractions (outside the exact-rational model): the number of rows / columns is exact, the
    positions are compared with a relative tolerance of 1e-9, the deprecated builder still equals its replacement"""
    from bloqade.shuttle.stdlib.layouts import single_col_zone, two_col_zone
    from bloqade.shuttle.stdlib import spec as old_spec
    N = ctx.pick(8, 16)
    close = lambda a, b: abs(a - b) <= 1e-9 * max(1.0, abs(a), abs(b))
    n_ok = 0
    # (also pitches that come out of a division and need more than a few decimals, and a binary fraction with seven decimals)
    for s in (0.1, 0.2, 0.3, 0.7, 10.1, 1 / 3, 10 / 3, 3.141592653589793, 0.5078125, 1e-7 * 12345678):
        for nx, ny in [(n, 2) for n in range(1, N + 1)] + [(2, n) for n in range(1, N + 1)]:
            rep = {"builder": "single", "args": [nx, ny, s]}
            S = build(ctx, "single_col_zone.get_spec", single_col_zone.get_spec, (nx, ny, s), rep)
            D = build(ctx, "stdlib.spec.single_zone_spec", old_spec.single_zone_spec, (nx, ny, s), rep)
            if S is None or D is None:
                continue
            ctx.evaluations += 1
            z = S.layout.static_traps.get("traps")
            ok = (z is not None and tuple(z.shape) == (nx, ny)
                  and all(close(x, i * s) for i, x in enumerate(z.x_positions)) and all(close(y, j * s) for j, y in enumerate(z.y_positions)))
            if not ok:
                ctx.fail({"builder": "single_col_zone.get_spec", "problem": "sites", "spacing_kind": "not a binary fraction"}, rep,
                         f"single_col_zone.get_spec({nx},{ny},{s}): zone has shape {None if z is None else tuple(z.shape)} / positions off the requested {nx}x{ny} grid at spacing {s}")
            elif not (S == D):
                ctx.fail({"builder": "deprecated", "problem": "differs from replacement", "spacing_kind": "not a binary fraction"}, rep,
                         f"deprecated single_zone_spec({nx},{ny},{s}) differs from single_col_zone.get_spec")
            else:
                n_ok += 1
        for nx, gs in [(n, 0.3) for n in range(1, min(N, 8) + 1)] + [(3, 2 / 3), (2, 1 / 7)]:
            rep = {"builder": "two_col", "args": [nx, 2, s, gs]}
            T = build(ctx, "two_col_zone.get_spec", two_col_zone.get_spec, (nx, 2, s, gs), rep)
            if T is None:
                continue
            ctx.evaluations += 1
            L, R, Z = (T.layout.static_traps.get(k) for k in ("left_traps", "right_traps", "traps"))
            ok = (L is not None and R is not None and Z is not None and tuple(L.shape) == (nx, 2) and tuple(R.shape) == (nx, 2) and tuple(Z.shape) == (2 * nx, 2)
                  and all(close(x, i * (s + gs)) for i, x in enumerate(L.x_positions)) and all(close(r, l + gs) for l, r in zip(L.x_positions, R.x_positions)))
            # left / right are VIEWS of the two-column zone: their columns are the even / odd columns of the stored zone
            # (up to the rounding of float sums taken in another order: 1e-9 relative, far below any coordinate resolution)
            same = lambda a, b: len(a) == len(b) and all(close(u, v) for u, v in zip(a, b))
            part = ok and same(list(L.x_positions), list(Z.x_positions)[0::2]) and same(list(R.x_positions), list(Z.x_positions)[1::2]) and \
                same(list(L.y_positions), list(Z.y_positions)) and same(list(R.y_positions), list(Z.y_positions))
            if not ok:
                ctx.fail({"builder": "two_col_zone.get_spec", "problem": "geometry", "spacing_kind": "not a binary fraction"}, rep,
                         f"two_col_zone.get_spec({nx},2,{s},{gs}): left/right/traps zones are not {nx} pairs at pitch {s}+{gs}")
            elif not part:
                ctx.fail({"builder": "two_col_zone.get_spec", "problem": "left/right do not partition the zone", "spacing_kind": "not a binary fraction"}, rep,
                         f"two_col_zone.get_spec({nx},2,{s},{gs}): the columns of left_traps / right_traps are not the even / odd columns of the stored zone 'traps' "
                         f"({list(R.x_positions)[:2]} vs {list(Z.x_positions)[1::2][:2]})")
            else:
                n_ok += 1
    ctx.count("builder calls with spacings that are not binary fractions: agree within 1e-9", n_ok)


def builder_histories(ctx):
    """what a builder returns does not depend on which builders were called before it, and a value already
    returned is not changed by later calls (every ordered pair of builders, each called before and after the other)"""
    import copy
    from bloqade.shuttle.stdlib.layouts import single_col_zone, two_col_zone
    from bloqade.shuttle.stdlib.layouts.gemini import base_spec, logical
    from bloqade.shuttle.stdlib import spec as old_spec
    B = {"gemini.base_spec.get_base_spec()": base_spec.get_base_spec, "gemini.logical.get_spec()": logical.get_spec,
         "single_col_zone.get_spec(2,3,2.0)": lambda: single_col_zone.get_spec(2, 3, 2.0),
         "two_col_zone.get_spec(2,2,8.0,2.0)": lambda: two_col_zone.get_spec(2, 2, 8.0, 2.0),
         "stdlib.spec.single_zone_spec(2,3,2.0)": lambda: old_spec.single_zone_spec(2, 3, 2.0)}
    first = {n: show_spec(f()) for n, f in B.items()}          # each builder's value the first time it is called in this run
    for n1, f1 in B.items():
        for n2, f2 in B.items():
            held = f1()
            snap = show_spec(held)
            f2()
            again = f1()
            ctx.evaluations += 1
            rep = {"builder": n1, "history": [n1, n2, n1]}
            if show_spec(held) != snap:
                ctx.fail({"builder": n1.split("(")[0], "problem": "returned value changed by a later builder call", "later": n2.split("(")[0]}, rep,
                         f"the spec returned by {n1} changed while the caller held it, after {n2} was called")
            if show_spec(again) != first[n1] or snap != first[n1]:
                ctx.fail({"builder": n1.split("(")[0], "problem": "result depends on call history", "after": n2.split("(")[0]}, rep,
                         f"{n1} returns a different spec after {n2} has been called than it did at first")
            if again is held or again.layout is held.layout or again.layout.static_traps is held.layout.static_traps:
                ctx.fail({"builder": n1.split("(")[0], "problem": "two calls return the same mutable object"}, rep,
                         f"two calls of {n1} return the same object (tables shared between callers)")
    ctx.nt("builder-histories")


def builder_values_after_use(ctx):
    """a spec a builder returned is still the documented one after the package has USED it: kernels that read every zone / special grid /
    constant traced and executed at run time under it, compiled with it, analysed with it"""
    from bloqade.shuttle.stdlib.layouts import single_col_zone, two_col_zone
    from bloqade.shuttle.stdlib.layouts.gemini import base_spec, logical
    from bloqade.shuttle.analysis.zone import ZoneAnalysis
    from bloqade.shuttle.codegen.taskgen import TraceInterpreter
    from bloqade.shuttle.passes.hint_zone import HintZone
    from gen import kernels
    from vcommon import events
    B = {"gemini.base_spec.get_base_spec()": base_spec.get_base_spec, "gemini.logical.get_spec()": logical.get_spec,
         "single_col_zone.get_spec(2,3,2.0)": lambda: single_col_zone.get_spec(2, 3, 2.0),
         "two_col_zone.get_spec(2,2,8.0,2.0)": lambda: two_col_zone.get_spec(2, 2, 8.0, 2.0)}
    for name, f in B.items():
        held = f()
        snap = show_spec(held)
        zone = next(iter(held.layout.static_traps))
        body = "".join(f"    t{i} = spec.get_static_trap(zone_id=\"{z}\")\n" for i, z in enumerate(list(held.layout.static_traps)[:4]))
        body += "".join(f"    s{i} = spec.get_special_grid(grid_id=\"{z}\")\n" for i, z in enumerate(list(held.layout.special_grid)[:3]))
        body += "".join(f"    c{i} = spec.get_int_constant(constant_id=\"{z}\")\n" for i, z in enumerate(list(held.int_constants)[:3]))
        tsrc = "@tweezer\ndef kt():\n" + body + "    action.set_loc(t0[0:1, 0:1])\n    action.move(grid.shift(t0[0:1, 0:1], 1.0, 0.0))\n"
        used = []
        try:
            kt = kernels.define(tsrc)["kt"]
            TraceInterpreter(held).run_trace(kt, (), {})
            used.append("traced")
            for dec in ("", "(arch_spec=S)"):
                msrc = f"@move{dec}\ndef km():\n" + body + "    gate.local_rz(0.5, t0)\n    f = schedule.device_fn(kt, [0], [0])\n    f()\n"
                m = kernels.define(msrc, S=held, kt=kt)["km"]
                events.run_events(m, (), held, plain=bool(dec))
                HintZone(m.dialects, arch_spec=held)(m)
                ZoneAnalysis(m.dialects, arch_spec=held).run_analysis(m)
                used.append("executed" + dec)
        except Exception as e:
            ctx.obligation(f"kernels reading the spec of {name} can be run", False, f"{type(e).__name__}: {e}"[:200])
        ctx.evaluations += 1
        rep = {"builder": name, "after_use": used}
        if show_spec(held) != snap:
            ctx.fail({"builder": name.split("(")[0], "problem": "returned value changed by using it"}, rep,
                     f"the spec returned by {name} is no longer what the builder returned after the package used it ({', '.join(used)}): {snap[:80]} became {show_spec(held)[:120]}")
        elif show_spec(f()) != snap:
            ctx.fail({"builder": name.split("(")[0], "problem": "result depends on call history", "after": "use of an earlier result"}, rep,
                     f"{name} returns a different spec after an earlier result was used by the package")
        else:
            ctx.nt(("builder-after-use", name))


def numeric_type_cases(ctx):
    """the same request written with int and with float arguments (spacing=10 vs 10.0, gate_spacing=2 vs 2.0, defaults omitted vs spelled
    out): the documented geometry does not depend on the numeric type of a spacing"""
    from bloqade.shuttle.stdlib.layouts import single_col_zone, two_col_zone
    from bloqade.shuttle.stdlib import spec as old_spec
    n_ok = 0
    N = ctx.pick(3, 5)

    def same(A, B):
        za, zb = A.layout.static_traps, B.layout.static_traps
        return (sorted(za) == sorted(zb) and all(tuple(za[k].shape) == tuple(zb[k].shape) and [float(v) for v in za[k].x_positions] == [float(v) for v in zb[k].x_positions]
                                                 and [float(v) for v in za[k].y_positions] == [float(v) for v in zb[k].y_positions] for k in za))
    for nx, ny in itertools.product(range(1, N + 1), repeat=2):
        for fn_name, fn, variants in (
                ("single_col_zone.get_spec", single_col_zone.get_spec, [((nx, ny, 10), (nx, ny, 10.0)), ((nx, ny), (nx, ny, 10.0)), ((nx, ny, 3), (nx, ny, 3.0))]),
                ("stdlib.spec.single_zone_spec", old_spec.single_zone_spec, [((nx, ny, 10), (nx, ny, 10.0)), ((nx, ny, 3), (nx, ny, 3.0))]),
                ("two_col_zone.get_spec", two_col_zone.get_spec,
                 [((nx, ny, 10, 2.5), (nx, ny, 10.0, 2.5)), ((nx, ny, 10, 0.5), (nx, ny, 10.0, 0.5)), ((nx, ny, 2.5, 2), (nx, ny, 2.5, 2.0)),
                  ((nx, ny, 10, 2), (nx, ny, 10.0, 2.0)), ((nx, ny, 1, 1.5), (nx, ny, 1.0, 1.5)), ((nx, ny, 7, 1.25), (nx, ny, 7.0, 1.25))])):
            for a_int, a_float in variants:
                rep = {"builder": fn_name, "args": list(a_int), "same_request_in_floats": list(a_float)}
                ctx.evaluations += 1
                try:
                    B = fn(*a_float)
                except Exception:
                    continue
                try:
                    A = fn(*a_int)
                except Exception as e:
                    ctx.fail({"builder": fn_name, "problem": "raises", "numeric_type": "int argument"}, rep,
                             f"{fn_name}{a_int} raises {type(e).__name__}: {str(e)[:80]} while {fn_name}{a_float} builds a spec")
                    continue
                if not same(A, B):
                    ctx.fail({"builder": fn_name, "problem": "geometry", "numeric_type": "int argument"}, rep,
                             f"{fn_name}{a_int} and {fn_name}{a_float} (the same request) have different zones / site coordinates")
                else:
                    n_ok += 1
                    ctx.nt(("numeric", fn_name, a_int))
    ctx.count("builder requests written with int arguments: same geometry as with floats", n_ok)
    # the same request with the spacings passed BY KEYWORD (any subset, any order), and what the spec publishes about them
    k_ok = 0
    for nx, ny, sp, gs in ((3, 2, 5.0, 1.5), (2, 2, 6.0, 3.0), (1, 3, 2.5, 0.5)):
        forms = [("single_col_zone.get_spec", single_col_zone.get_spec, (nx, ny, sp), [((nx, ny), {"spacing": sp}), ((nx,), {"spacing": sp, "num_y": ny}), ((), {"spacing": sp, "num_y": ny, "num_x": nx})]),
                 ("stdlib.spec.single_zone_spec", old_spec.single_zone_spec, (nx, ny, sp), [((nx, ny), {"spacing": sp})]),
                 ("two_col_zone.get_spec", two_col_zone.get_spec, (nx, ny, sp, gs),
                  [((nx, ny, sp), {"gate_spacing": gs}), ((nx, ny), {"gate_spacing": gs, "spacing": sp}), ((nx, ny), {"spacing": sp, "gate_spacing": gs}), ((), {"gate_spacing": gs, "num_y": ny, "spacing": sp, "num_x": nx})])]
        for fn_name, fn, pos, kws in forms:
            B = fn(*pos)
            for a, kw in kws:
                rep = {"builder": fn_name, "args": list(a), "kwargs": kw, "same_request_positionally": list(pos)}
                ctx.evaluations += 1
                try:
                    A = fn(*a, **kw)
                except Exception as e:
                    ctx.fail({"builder": fn_name, "problem": "raises", "call_form": "keywords"}, rep, f"{fn_name}(*{a}, **{kw}) raises {type(e).__name__}: {str(e)[:80]}")
                    continue
                if not same(A, B) or not (A == B):
                    ctx.fail({"builder": fn_name, "problem": "geometry", "call_form": "keywords"}, rep,
                             f"{fn_name}(*{a}, **{kw}) and {fn_name}{pos} (the same request) have different zones / site coordinates")
                else:
                    k_ok += 1
                    ctx.nt(("keywords", fn_name, a, tuple(sorted(kw))))
        # published constants agree with the geometry: whatever a two-column spec says about its gate spacing is the distance of a pair
        T = two_col_zone.get_spec(nx, ny, sp, gs)
        L, R = T.layout.static_traps["left_traps"], T.layout.static_traps["right_traps"]
        pair = float(R.x_positions[0]) - float(L.x_positions[0])
        ctx.evaluations += 1
        for name, val in list(T.float_constants.items()) + list(T.int_constants.items()):
            if "gate" in name and float(val) != pair:
                ctx.fail({"builder": "two_col_zone.get_spec", "problem": "published constant disagrees with the geometry", "constant": name}, {"builder": "two_col_zone.get_spec", "args": [nx, ny, sp, gs]},
                         f"two_col_zone.get_spec({nx},{ny},{sp},{gs}) publishes {name} = {val} but its left/right traps are {pair} apart")
            if name in ("spacing", "pitch") and float(val) != sp:
                ctx.fail({"builder": "two_col_zone.get_spec", "problem": "published constant disagrees with the geometry", "constant": name}, {"builder": "two_col_zone.get_spec", "args": [nx, ny, sp, gs]},
                         f"two_col_zone.get_spec({nx},{ny},{sp},{gs}) publishes {name} = {val} but was asked for spacing {sp}")
    ctx.count("builder requests written with keyword arguments: same spec as positionally", k_ok)


def translated_builders(ctx):
    """the three plain builders translated from source on every run (harness/gen/builders_translate.py, fail-closed) and proved equal to
    Model/Builders.v: the geometry theorems (and the parking theorem C08 builds on) hold of the builders as written"""
    from gen import builders_translate
    from vcommon import paths
    name = "single_col_zone.get_spec, stdlib.spec.single_zone_spec and two_col_zone.get_spec are inside the translated fragment (generated model Gen_C14_src.v)"
    try:
        body = builders_translate.generate(paths.REPO)
    except Exception as e:
        ctx.obligation(name, False, f"{type(e).__name__}: {e}"[:300])
        return
    ctx.obligation(name, True)
    ok, log = coqrun.compile_lemma_file(ctx.bdir, "Gen_C14_src", body)
    closed = log.count("Closed under the global context")
    ctx.obligation("the translated builders equal the hand models for every size and spacing (gen_single_col_spec_eq, gen_deprecated_single_zone_spec_eq, "
                   "gen_two_col_spec_eq), closed under the global context", ok and closed >= 5, log[-600:])


def run(ctx):
    warnings.simplefilter("ignore")
    from bloqade.shuttle.stdlib.layouts import single_col_zone, two_col_zone
    from bloqade.shuttle.stdlib.layouts.gemini import base_spec, logical
    from bloqade.shuttle.stdlib import spec as old_spec
    translated_builders(ctx)
    ctx.rule = ("each builder for all num_x, num_y up to the tier's bound (quick 4, thorough 7) x spacings {0.5,1,2,2.5,10} x gate spacings "
                "{0.5,2,2.5}: every zone (spacing tuples, initial positions, parent and index lists of views), capability sets and constants "
                "compared line by line with the Coq builder models; the two Gemini specs compared in full; documented geometry evaluated "
                "directly on the Python objects; non-trivial = distinct (builder, parameters)")
    N = ctx.pick(4, 7)
    SP = [0.5, 1.0, 2.0, 2.5, 10.0]
    GS = [0.5, 2.0, 2.5]
    cases = []   # (coq expr, expected lines, label)
    for nx, ny in itertools.product(range(1, N + 1), repeat=2):
        for s in SP:
            rep = {"builder": "single", "args": [nx, ny, s]}
            S = build(ctx, "single_col_zone.get_spec", single_col_zone.get_spec, (nx, ny, s), rep)
            D = build(ctx, "stdlib.spec.single_zone_spec", old_spec.single_zone_spec, (nx, ny, s), rep)
            if S is None or D is None:
                continue
            oracle_single(ctx, "single_col_zone.get_spec", S, nx, ny, s, rep)
            oracle_single(ctx, "stdlib.spec.single_zone_spec", D, nx, ny, s, rep)
            if not (S == D) or hash(S) != hash(D):
                ctx.fail({"builder": "deprecated", "problem": "differs from replacement"}, rep,
                         f"deprecated single_zone_spec({nx},{ny},{s}) differs from single_col_zone.get_spec")
            cases.append((f"show_spec (single_col_spec {cnat(nx)} {cnat(ny)} {cQ(s)})", show_spec(S), f"single({nx},{ny},{s})"))
            cases.append((f"show_spec (deprecated_single_zone_spec {cnat(nx)} {cnat(ny)} {cQ(s)})", show_spec(D), f"deprecated({nx},{ny},{s})"))
            ctx.evaluations += 2
            ctx.nt(("single", nx, ny, s))
            for gs in GS:
                rep = {"builder": "two_col", "args": [nx, ny, s, gs]}
                T = build(ctx, "two_col_zone.get_spec", two_col_zone.get_spec, (nx, ny, s, gs), rep)
                if T is None:
                    continue
                oracle_two_col(ctx, T, nx, ny, s, gs, rep)
                cases.append((f"show_spec (two_col_spec {cnat(nx)} {cnat(ny)} {cQ(s)} {cQ(gs)})", show_spec(T), f"two_col({nx},{ny},{s},{gs})"))
                ctx.evaluations += 1
                ctx.nt(("two_col", nx, ny, s, gs))
    builder_histories(ctx)
    builder_values_after_use(ctx)
    inexact_spacing_cases(ctx)
    numeric_type_cases(ctx)
    B, Lg = base_spec.get_base_spec(), logical.get_spec()
    oracle_gemini(ctx, B, Lg)
    cases.append(("show_spec gemini_base_spec", show_spec(B), "gemini base"))
    cases.append(("show_spec gemini_logical_spec", show_spec(Lg), "gemini logical"))
    ctx.evaluations += 2
    ctx.nt("gemini-base")
    ctx.nt("gemini-logical")
    ctx.sample({"builder": cases[-3][2], "zones": cases[-3][1][:4]})
    chunks = [cases[i:i + 80] for i in range(0, len(cases), 80)]
    bodies = [(f"b_{k}", COQ_IMPORT + "Eval vm_compute in (lines (map (fun l => sep_by \"@@\"%%string l) %s))." %
               clist([c[0] for c in ch])) for k, ch in enumerate(chunks)]
    mism = []
    for ch, (ok, vals, log) in zip(chunks, coqrun.eval_many(ctx.bdir, bodies)):
        if not ok or len(vals) != 1 or len(vals[0]) != len(ch):
            ctx.obligation("coqc builder file evaluates", False, log[-800:])
            continue
        for c, line in zip(ch, vals[0]):
            got = line.split("@@")
            if got != c[1]:
                k = next((i for i in range(max(len(got), len(c[1]))) if i >= len(got) or i >= len(c[1]) or got[i] != c[1][i]), 0)
                mism.append({"builder": c[2], "model": got[k][:300] if k < len(got) else "<missing>",
                             "impl": c[1][k][:300] if k < len(c[1]) else "<missing>"})
    ctx.correspondence("builder models vs the specs the library returns, zone by zone", len(cases), mism)
    ctx.explanation = ("Theorems for all num_x, num_y >= 1 and all spacings: single-zone sites x_i = i*s; deprecated = replacement; two-column zone: "
                       "left = even / right = odd columns, left x_i = i*(gate+spacing), right = left + gate, the zone's columns are exactly the "
                       "interleaving; Gemini: closed terms checked by computation against the documented block table, constants agree. Exact "
                       "rationals, IEEE rounding not modelled.")


def replay(data):
    return True, "re-run bin/check C14: " + str(data.get("what"))
