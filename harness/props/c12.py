"""C12 - a filled grid is its underlying grid minus its vacancies, under all operations."""
import itertools
from fractions import Fraction

from vcommon import coqrun
from vcommon.coqrun import cQ, clist, cnat

from gen import kernels

COQ_IMPORT = "From BS Require Import Core.Show Core.Base Core.GridQ Model.Filled.\n"


def fq(v):
    f = Fraction(v)
    return f"{f.numerator}/{f.denominator}"


def show_grid(g):
    opt = lambda v: "None" if v is None else f"Some({fq(v)})"
    return ("Grid([" + ",".join(fq(s) for s in g.x_spacing) + "],[" + ",".join(fq(s) for s in g.y_spacing) + "],"
            + opt(g.x_init) + "," + opt(g.y_init) + ")")


def FG():
    from bloqade.shuttle.dialects.filled.types import FilledGrid
    return FilledGrid


def root_of(v):
    while isinstance(v, FG()):
        v = v.parent
    return v


def show_val(v):
    if isinstance(v, FG()):
        vac = sorted(v.vacancies)
        return ("filled " + show_grid(root_of(v)) + " vac=[" + ",".join(f"({a},{b})" for a, b in vac) + "] pos=["
                + ",".join(f"({fq(x)},{fq(y)})" for x, y in v.positions) + "]")
    return "plain " + show_grid(v)


def apply_op(v, op):
    from kirin.dialects import ilist
    k = op[0]
    if k == "fill":
        return FG().fill(v, [tuple(p) for p in op[1]])
    if k == "vacate":
        return FG().vacate(v, [tuple(p) for p in op[1]])
    if k == "shift":
        return v.shift(op[1], op[2])
    if k == "scale":
        return v.scale(op[1], op[2])
    if k == "repeat":
        return v.repeat(op[1], op[2], op[3], op[4])
    if k == "view":
        return v.get_view(ilist.IList(list(op[1])), ilist.IList(list(op[2])))
    if k == "parent":
        if not isinstance(v, FG()):
            raise TypeError("get_parent of a plain grid")
        return v.parent
    raise ValueError(k)


def run_chain(base, ops):
    from bloqade.geometry.dialects.grid import Grid
    v = Grid.from_positions(list(base[0]), list(base[1]))
    try:
        for op in ops:
            v = apply_op(v, op)
        return v, None
    except Exception as e:
        return None, type(e).__name__


def op_coq(op):
    k = op[0]
    ix = lambda l: clist([f"({cnat(a)}, {cnat(b)})" for a, b in l])
    nl = lambda l: clist([cnat(a) for a in l])
    if k == "fill":
        return f"OpFill {ix(op[1])}"
    if k == "vacate":
        return f"OpVacate {ix(op[1])}"
    if k == "shift":
        return f"OpShift {cQ(op[1])} {cQ(op[2])}"
    if k == "scale":
        return f"OpScale {cQ(op[1])} {cQ(op[2])}"
    if k == "repeat":
        return f"OpRepeat {cnat(op[1])} {cnat(op[2])} {cQ(op[3])} {cQ(op[4])}"
    if k == "view":
        return f"OpView {nl(op[1])} {nl(op[2])}"
    return "OpParent"


def case_coq(base, ops):
    return (f"(FPlain gridv (GPlain (from_positions {clist([cQ(x) for x in base[0]])} {clist([cQ(y) for y in base[1]])})), "
            f"{clist([op_coq(o) for o in ops])})")


BASES = {(1, 3): ([0.5], [0.0, 1.0, 3.0]), (2, 2): ([0.0, 2.0], [1.0, 1.5]), (2, 3): ([-1.0, 0.25], [0.0, 2.0, 2.5]),
         (3, 1): ([0.0, 1.0, 4.0], [2.0]), (3, 3): ([0.0, 1.0, 2.5], [0.0, 0.5, 4.0]), (1, 1): ([0.0], [0.0])}


def second_ops(shape):
    nx, ny = shape
    ops = [("shift", 1.5, -0.25), ("scale", 2.0, 0.5), ("parent",), ("fill", [(0, 0)]), ("vacate", [(nx - 1, ny - 1)]),
           ("vacate", [(0, 0), (0, 0)]), ("fill", [(nx - 1, 0), (0, ny - 1)])]
    for tx, ty in [(1, 1), (2, 1), (1, 2), (2, 3), (3, 2), (0, 1), (1, 0)]:
        ops.append(("repeat", tx, ty, 2.0, 0.5))
    xs = [[i] for i in range(nx)] + [list(p) for p in itertools.product(range(nx), repeat=2)] + [list(range(nx))[::-1], []]
    ys = [[j] for j in range(ny)] + [list(p) for p in itertools.product(range(ny), repeat=2)] + [list(range(ny)), []]
    for xi in xs:
        for yi in ys:
            ops.append(("view", xi, yi))
    return ops


def rand_chain(rng, maxlen):
    shape = rng.choice(list(BASES))
    nx, ny = shape
    ops = []
    for _ in range(rng.randint(1, maxlen)):
        r = rng.random()
        cells = [(i, j) for i in range(nx) for j in range(ny)]
        if r < 0.22 or not ops:
            ops.append((rng.choice(["fill", "vacate"]), rng.sample(cells, rng.randint(0, min(4, len(cells))))))
        elif r < 0.4:
            ops.append((rng.choice(["fill", "vacate"]), rng.sample(cells, rng.randint(0, min(3, len(cells))))))
        elif r < 0.52:
            ops.append(("shift", Fraction(rng.randint(-8, 8), 4).__float__(), Fraction(rng.randint(-8, 8), 4).__float__()))
        elif r < 0.62:
            ops.append(("scale", rng.choice([0.5, 1.0, 2.0, 1.5]), rng.choice([0.5, 2.0, 3.0])))
        elif r < 0.76 and nx * ny <= 12:
            tx, ty = rng.choice([1, 1, 2, 3]), rng.choice([1, 2])
            ops.append(("repeat", tx, ty, rng.choice([0.5, 2.0]), rng.choice([1.0, 4.0])))
            nx, ny = nx * tx, ny * ty
        elif r < 0.95:
            xi = [rng.randrange(nx) for _ in range(rng.randint(1, 3))]
            yi = [rng.randrange(ny) for _ in range(rng.randint(1, 3))]
            if rng.random() < 0.5:
                xi, yi = sorted(set(xi)), sorted(set(yi))
            ops.append(("view", xi, yi))
            nx, ny = len(xi), len(yi)
        else:
            ops.append(("parent",))
    return shape, ops


def oracle(ctx, base, ops, v):
    """the property's statements evaluated on the implementation's values"""
    FGc = FG()
    rep = {"base": [list(base[0]), list(base[1])], "ops": [list(o) for o in ops]}

    def fail(what, **sig):
        ctx.fail(dict(sig, problem=what, last_op=ops[-1][0] if ops else None), rep, what + f" after {ops}")
    if not isinstance(v, FGc):
        return
    root = root_of(v)
    sites = [((i, j), (x, y)) for i, x in enumerate(root.x_positions) for j, y in enumerate(root.y_positions)]
    want = [pt for ij, pt in sites if ij not in v.vacancies]
    if list(v.positions) != want:
        fail("positions are not the underlying grid's sites minus the vacancies")
    # cumulative vacate / fill, history independence of == and hash
    cells = [ij for ij, _ in sites]
    a = cells[: max(1, len(cells) // 3)]
    b = cells[len(cells) // 3: 2 * len(cells) // 3 + 1]
    two = FGc.vacate(FGc.vacate(v, a), b)
    one = FGc.vacate(v, a + b)
    if not (two == one) or hash(two) != hash(one):
        fail("vacate in two steps differs (== or hash) from vacating the union at once")
    if two.vacancies != v.vacancies | set(a) | set(b):
        fail("vacate is not cumulative")
    f2 = FGc.fill(FGc.fill(v, a), b)
    f1 = FGc.fill(v, a + b)
    if not (f2 == f1) or hash(f2) != hash(f1) or f2.vacancies != v.vacancies - set(a) - set(b):
        fail("fill is not cumulative / history dependent equality")
    fresh = FGc.vacate(root, sorted(v.vacancies))
    if not (fresh == v) or hash(fresh) != hash(v):
        fail("a value differs (== or hash) from the same underlying grid with the same vacancy set built directly")
    # the index collections may be any iterable (lists, sets, one-shot iterators)
    it1 = FGc.vacate(FGc.vacate(v, iter(a)), (c for c in b))
    if not (it1 == one) or it1.vacancies != one.vacancies:
        fail("vacate with a one-shot iterator of indices differs from vacate with the list of the same indices")
    it2 = FGc.fill(FGc.fill(v, iter(a)), zip([c[0] for c in b], [c[1] for c in b]))
    if not (it2 == f1) or it2.vacancies != f1.vacancies:
        fail("fill with a one-shot iterator of indices differs from fill with the list of the same indices")
    # equality across kinds: FilledGrid.__eq__ never equates a grid with vacancies with a plain grid, whose sites are a different
    # set (the reflected `plain == filled` is answered by bloqade.geometry's SubGrid.__eq__, outside this repository)
    if v.vacancies:
        for other in (root, getattr(v, "parent", root)):
            if v == other:
                fail("a filled grid with vacancies compares equal to a plain grid", mixed=type(other).__name__)
    # transforms act on the underlying grid only
    sh = v.shift(1.5, -2.0)
    if root_of(sh) != root.shift(1.5, -2.0) or sh.vacancies != v.vacancies:
        fail("shift does not transform the underlying grid / keep the vacancies")
    if list(sh.positions) != [(x + 1.5, y - 2.0) for x, y in v.positions]:
        fail("shift does not move the occupied sites")
    sc = v.scale(2.0, 0.5)
    if root_of(sc) != root.scale(2.0, 0.5) or sc.vacancies != v.vacancies:
        fail("scale does not transform the underlying grid / keep the vacancies")
    nx, ny = v.shape
    for tx, ty in ((2, 1), (2, 3)):
        if nx * ny * tx * ty > 60:
            continue
        rp = v.repeat(tx, ty, 2.0, 0.5)
        exp = {(x + nx * i, y + ny * j) for (x, y) in v.vacancies for i in range(tx) for j in range(ty)}
        if rp.vacancies != exp or root_of(rp) != root.repeat(tx, ty, 2.0, 0.5):
            fail("repeat does not tile the vacancy pattern over the repeated underlying grid")
    from kirin.dialects import ilist
    for xi, yi in (([0, 0], [ny - 1]), (list(range(nx))[::-1], list(range(ny))), ([nx - 1], [0, ny - 1, 0])):
        vw = v.get_view(ilist.IList(xi), ilist.IList(yi))
        exp = {(p, q) for p in range(len(xi)) for q in range(len(yi)) if (xi[p], yi[q]) in v.vacancies}
        if vw.vacancies != exp:
            fail(f"get_view({xi},{yi}) does not re-index the vacancy pattern", view=[xi, yi])
        if root_of(vw) != root.get_view(ilist.IList(xi), ilist.IList(yi)):
            fail("get_view does not view the underlying grid")


def kernel_level(ctx):
    """the kernel-level statements compute what the Python methods compute"""
    from bloqade.geometry.dialects.grid import Grid
    from kirin.dialects import ilist
    FGc = FG()
    src = """
@move
def main():
    zone = grid.from_positions([0.0, 1.0, 2.5], [0.0, 2.0])
    a = filled.vacate(zone, [(0, 0), (2, 1)])
    b = filled.fill(a, [(0, 0)])
    c = filled.vacate(b, [(1, 1)])
    d = filled.shift(c, 1.0, -1.0)
    e = filled.scale(d, 2.0, 0.5)
    f = filled.repeat(e, 2, 1, 3.0, 1.0)
    g = grid.sub_grid(f, [0, 0, 5], [1])
    h = f[1:4, 0]
    p = filled.get_parent(c)
    q = filled.fill(zone, [(1, 0)])
    return (a, b, c, d, e, f, g, h, p, q)
"""
    try:
        m = kernels.define(src)["main"]
        got = m()
    except Exception as e:
        ctx.obligation("kernel-level filled statements run", False, f"{type(e).__name__}: {e}")
        return
    z = Grid.from_positions([0.0, 1.0, 2.5], [0.0, 2.0])
    a = FGc.vacate(z, [(0, 0), (2, 1)])
    b = FGc.fill(a, [(0, 0)])
    c = FGc.vacate(b, [(1, 1)])
    d = c.shift(1.0, -1.0)
    e = d.scale(2.0, 0.5)
    f = e.repeat(2, 1, 3.0, 1.0)
    g = f.get_view(ilist.IList([0, 0, 5]), ilist.IList([1]))
    h = f[1:4, 0]
    p = c.parent
    q = FGc.fill(z, [(1, 0)])
    names = "abcdefghpq"
    for nm, x, y in zip(names, got, (a, b, c, d, e, f, g, h, p, q)):
        ctx.evaluations += 1
        if show_val(x) != show_val(y) or not (x == y):
            ctx.fail({"kind": "kernel-vs-method", "value": nm}, {"src": src, "value": nm},
                     f"kernel-level value {nm} = {show_val(x)[:150]} but the Python methods give {show_val(y)[:150]}")


FORM_SRC = {
    "site lists received as parameters of statically unknown length": """
@{DEC}
def main(zone: grid.Grid[Any, Any], sites: ilist.IList[tuple[int, int], Any], more: ilist.IList[tuple[int, int], Any], n: int):
    a = filled.vacate(zone, sites)
    b = filled.fill(a, more)
    c = filled.vacate(b, sites)
    q = filled.fill(zone, more)
    r = filled.vacate(filled.vacate(zone, sites), more)
    return (a, b, c, q, r)
""",
    "site lists computed at run time": """
@{DEC}
def main(zone: grid.Grid[Any, Any], sites: ilist.IList[tuple[int, int], Any], more: ilist.IList[tuple[int, int], Any], n: int):
    def diag(i: int):
        return (i, 0)
    run = ilist.map(diag, ilist.range(n))
    a = filled.vacate(zone, run)
    b = filled.fill(a, more)
    c = filled.vacate(b, run)
    q = filled.fill(zone, run)
    r = filled.vacate(filled.vacate(zone, run), more)
    return (a, b, c, q, r)
""",
}


def kernel_level_forms(ctx):
    """vacate / fill in every kernel kind, on square and non-square grids, with site lists whose length is not known statically"""
    from bloqade.geometry.dialects.grid import Grid
    from bloqade.shuttle import prelude
    from kirin.dialects import ilist
    FGc = FG()
    zones = [Grid.from_positions([0.0, 1.0, 2.5], [0.0, 2.0]), Grid.from_positions([0.0], [1.0, 2.0, 4.0]), Grid.from_positions([0.0, 3.0], [0.0, 3.0]),
             Grid.from_positions([0.0, 1.0, 2.0, 3.5], [5.0])]
    n_ok = 0
    for form, tsrc in FORM_SRC.items():
        for dec in ("move", "kernel", "tweezer"):
            src = tsrc.replace("{DEC}", dec)
            try:
                m = kernels.define(src, kernel=prelude.kernel)["main"]
            except Exception as e:
                ctx.evaluations += 1
                ctx.fail({"kind": "kernel-rejected", "decorator": dec, "form": form[:30], "error": type(e).__name__}, {"form_src": src, "decorator": dec},
                         f"@{dec} rejects a kernel using filled.vacate / filled.fill with {form}: {type(e).__name__}: {str(e)[:140]}")
                continue
            for z in zones:
                nx, ny = z.shape
                sites = [(0, 0), (nx - 1, ny - 1)] if nx * ny > 1 else [(0, 0)]
                more = [(nx - 1, 0)]
                n = min(nx, 2)
                run = [(i, 0) for i in range(n)]
                first = sites if "parameters" in form else run
                a = FGc.vacate(z, first)
                b = FGc.fill(a, more)
                c = FGc.vacate(b, first)
                q = FGc.fill(z, more if "parameters" in form else run)
                r = FGc.vacate(FGc.vacate(z, first), more)
                ctx.evaluations += 1
                rep = {"form_src": src, "decorator": dec, "zone_shape": [nx, ny]}
                try:
                    got = m(z, ilist.IList(sites), ilist.IList(more), n)
                except Exception as e:
                    ctx.fail({"kind": "kernel-raises", "decorator": dec, "form": form[:30]}, rep, f"@{dec} kernel with {form} on a {nx}x{ny} grid raises {type(e).__name__}: {str(e)[:120]}")
                    continue
                bad = [nm for nm, x, y in zip("abcqr", got, (a, b, c, q, r)) if show_val(x) != show_val(y) or not (x == y) or hash(x) != hash(y)]
                if bad:
                    ctx.fail({"kind": "kernel-vs-method", "decorator": dec, "form": form[:30]}, rep,
                             f"@{dec} kernel with {form} on a {nx}x{ny} grid: values {bad} differ from the Python methods")
                else:
                    n_ok += 1
                    ctx.nt(("kernel-form", form, dec, nx, ny))
    ctx.count("kernel-level vacate/fill forms x kernel kinds x grid shapes: agree with the methods", n_ok)


VIEW_SRC = """
@{DEC}
def main(zone: grid.Grid[Any, Any], sites: ilist.IList[tuple[int, int], Any], xi: ilist.IList[int, Any], yi: ilist.IList[int, Any]):
    v = filled.vacate(zone, sites)
    a = grid.sub_grid(v, xi, yi)
    b = grid.shift(v, 1.0, 2.0)
    c = grid.scale(v, 2.0, 0.5)
    d = grid.sub_grid(grid.shift(filled.vacate(zone, sites), 0.5, 0.0), xi, yi)
    e = grid.sub_grid(filled.fill(zone, sites), xi, yi)
    f = filled.vacate(grid.sub_grid(filled.vacate(zone, sites), xi, yi), [(0, 0)])
    return (a, b, c, d, e, f)
"""


def kernel_level_views(ctx):
    """a view / shift / scale taken DIRECTLY of the result of vacate / fill in the same kernel body (where a pipeline rewrite could
    reorder the two statements), in every kernel kind, with non-identity index selections"""
    from bloqade.geometry.dialects.grid import Grid
    from bloqade.shuttle import prelude
    from kirin.dialects import ilist
    FGc = FG()
    zones = [Grid.from_positions([0.0, 1.0, 2.5], [0.0, 2.0]), Grid.from_positions([0.0, 2.0], [1.0, 2.0, 4.0]), Grid.from_positions([0.0, 3.0], [0.0, 3.0]),
             Grid.from_positions([0.0, 1.0, 2.0, 3.5], [5.0, 6.0, 8.0])]
    n_ok = 0
    for dec in ("move", "kernel", "tweezer"):
        src = VIEW_SRC.replace("{DEC}", dec)
        try:
            m = kernels.define(src, kernel=prelude.kernel)["main"]
        except Exception as e:
            ctx.evaluations += 1
            ctx.fail({"kind": "kernel-rejected", "decorator": dec, "form": "views", "error": type(e).__name__}, {"view_src": src, "decorator": dec},
                     f"@{dec} rejects a kernel taking views of a vacated grid: {type(e).__name__}: {str(e)[:140]}")
            continue
        for z in zones:
            nx, ny = z.shape
            for sites, xi, yi in (([(nx - 1, ny - 1), (0, 0)], list(range(1, nx)), list(range(1, ny))),
                                  ([(nx - 1, 0)], [nx - 1, 0], [0]),
                                  ([(0, ny - 1), (1, 0)], [1, 1, 0], [ny - 1, 0])):
                X, Y = ilist.IList(xi), ilist.IList(yi)
                v = FGc.vacate(z, sites)
                want = (v.get_view(X, Y), v.shift(1.0, 2.0), v.scale(2.0, 0.5), v.shift(0.5, 0.0).get_view(X, Y),
                        FGc.fill(z, sites).get_view(X, Y), FGc.vacate(v.get_view(X, Y), [(0, 0)]))
                ctx.evaluations += 1
                rep = {"view_src": src, "decorator": dec, "zone_shape": [nx, ny], "sites": [list(t) for t in sites], "xi": xi, "yi": yi}
                try:
                    got = m(z, ilist.IList(sites), X, Y)
                except Exception as e:
                    ctx.fail({"kind": "kernel-raises", "decorator": dec, "form": "views"}, rep,
                             f"@{dec} kernel taking views of a vacated {nx}x{ny} grid raises {type(e).__name__}: {str(e)[:120]}")
                    continue
                bad = [nm for nm, x, y in zip("abcdef", got, want) if show_val(x) != show_val(y) or not (x == y) or hash(x) != hash(y)]
                if bad:
                    ctx.fail({"kind": "kernel-vs-method", "decorator": dec, "form": "views"}, rep,
                             f"@{dec} kernel: view/shift/scale taken directly of vacate(zone, {sites}) on a {nx}x{ny} grid with x{xi} y{yi}: values {bad} "
                             f"differ from the Python methods (e.g. {show_val(got['abcdef'.index(bad[0])])[:120]} vs {show_val(want['abcdef'.index(bad[0])])[:120]})")
                else:
                    n_ok += 1
                    ctx.nt(("kernel-view", dec, nx, ny, tuple(xi)))
    ctx.count("kernel-level views/shift/scale taken directly of vacate/fill x kernel kinds x grids x selections: agree with the methods", n_ok)


SPEC_ZONE_SRC = """
@{DEC}
def main(more: ilist.IList[tuple[int, int], Any]):
    z = spec.get_static_trap(zone_id="mem")
    s = spec.get_special_grid(grid_id="res")
    a = filled.vacate(z, more)
    b = filled.fill(z, more)
    c = filled.shift(z, 1.0, -1.0)
    d = filled.repeat(s, 2, 1, 30.0, 1.0)
    e = grid.sub_grid(z, [0, 0, 2], [1, 1])
    f = filled.get_parent(z)
    g = filled.vacate(s, [(0, 0)])
    h = z[0:2, 1]
    i = spec.get_special_grid(grid_id="mem")
    j = filled.vacate(i, more)
    k = loaded(more)
    return (z, s, a, b, c, d, e, f, g, h, i, j, k)
"""
# helpers shared by every kernel of spec_zone_forms: the outer one has no lookup of its own
SPEC_ZONE_HELPERS = """
@move
def zone_of_mem():
    return spec.get_static_trap(zone_id="mem")

@move
def loaded(sites: ilist.IList[tuple[int, int], Any]):
    return filled.fill(zone_of_mem(), sites)
"""


def spec_zone_forms(ctx):
    """zones of the architecture spec that ARE filled grids, read inside kernels of every kind: resolved at run time (spec-carrying
    interpreter) and injected at definition (arch_spec=...), with and without the fold - the statements applied to them compute what the
    Python methods compute on the zone the spec holds"""
    from bloqade.geometry.dialects.grid import Grid
    from bloqade.shuttle import prelude
    from bloqade.shuttle.arch import ArchSpec, ArchSpecInterpreter, Layout
    from kirin.dialects import ilist
    FGc = FG()
    more = [(1, 1), (0, 1)]

    def build(dx):
        # "mem" names a static trap AND (another filled grid) a special grid
        mem = FGc.vacate(Grid.from_positions([0.0 + dx, 1.0 + dx, 2.5 + dx], [0.0, 2.0, 5.0]), [(0, 1), (2, 2)])
        res = FGc.vacate(Grid.from_positions([-4.0 - dx, -2.0], [0.5]), [(1, 0)])
        smem = FGc.vacate(Grid.from_positions([40.0 + dx, 41.0 + dx], [7.0, 8.0]), [(1, 1)])
        S = ArchSpec(layout=Layout({"mem": mem, "plain": Grid.from_positions([10.0 + dx, 11.0 + dx], [0.0])}, {"mem"}, {"mem"}, {"plain"}, special_grid={"res": res, "mem": smem}))
        want = (mem, res, FGc.vacate(mem, more), FGc.fill(mem, more), mem.shift(1.0, -1.0), res.repeat(2, 1, 30.0, 1.0),
                mem.get_view(ilist.IList([0, 0, 2]), ilist.IList([1, 1])), mem.parent, FGc.vacate(res, [(0, 0)]), mem[0:2, 1],
                smem, FGc.vacate(smem, more), FGc.fill(mem, more))
        return S, want
    worlds = {"A": build(0.0), "B": build(100.0)}
    helpers = {k: v for k, v in kernels.define(SPEC_ZONE_HELPERS).items() if k in ("zone_of_mem", "loaded")}
    n_ok = 0
    # every kernel is defined for spec A, then B, then A again, over ONE set of helper kernels
    # (a tweezer kernel is also evaluated by the interpreter that traces device functions: "traced")
    for dec, how, which in [(d, h, w) for d in ("move", "kernel", "tweezer") for h in ("run-time lookup", "(arch_spec=S)", "(arch_spec=S, fold=False)") + (("traced",) if d == "tweezer" else ())
                            for w in ("A", "B", "A")]:
        S, want = worlds[which]
        if True:
            src = SPEC_ZONE_SRC.replace("{DEC}", dec + ("" if how in ("run-time lookup", "traced") else how))
            rep = {"spec_zone_src": src, "decorator": dec, "how": how, "spec": which}
            ctx.evaluations += 1
            try:
                m = kernels.define(src, kernel=prelude.kernel, S=S, **helpers)["main"]
                if how == "run-time lookup":
                    got = ArchSpecInterpreter(m.dialects, arch_spec=S).run(m, (ilist.IList(more),))
                elif how == "traced":
                    from bloqade.shuttle.codegen.taskgen import TraceInterpreter
                    got = TraceInterpreter(S).run(m, (ilist.IList(more),))
                else:
                    got = m(ilist.IList(more))
            except Exception as e:
                ctx.fail({"kind": "kernel-raises", "decorator": dec, "spec_zone": how}, rep, f"@{dec} kernel reading filled-grid zones of the spec ({how}) raises {type(e).__name__}: {str(e)[:120]}")
                continue
            NAMES = "zsabcdefghijk"
            bad = [nm for nm, x, y in zip(NAMES, got, want) if show_val(x) != show_val(y) or not (x == y) or hash(x) != hash(y)]
            if bad:
                ctx.fail({"kind": "kernel-vs-method", "decorator": dec, "spec_zone": how}, rep,
                         f"@{dec} kernel reading filled-grid zones of spec {which} ({how}; defined for A, B, A over shared helpers): values {bad} differ from the Python methods applied to that spec's zones, "
                         f"e.g. {bad[0]} = {show_val(got[NAMES.index(bad[0])])[:100]} instead of {show_val(want[NAMES.index(bad[0])])[:100]}")
            else:
                n_ok += 1
                ctx.nt(("spec-zone-form", dec, how, which))
    ctx.count("kernels reading filled-grid zones of the spec x kernel kinds x lookup routes: agree with the methods", n_ok)
    # two specs that differ ONLY in whether the zone "mem" is a sub-grid view or a filled grid over that very view, used one after the other
    big = Grid.from_positions([0.0, 1.0, 2.5, 4.0, 6.0], [0.0, 2.0, 5.0])
    view = big[1:4, :]
    fview = FGc.vacate(view, [(0, 1), (2, 2)])
    mk = lambda z: ArchSpec(layout=Layout({"mem": z, "plain": Grid.from_positions([10.0, 11.0], [0.0])}, {"mem"}, {"mem"}, {"plain"}, special_grid={}))
    V, W = mk(view), mk(fview)
    vsrc = "@{DEC}\ndef main(more: ilist.IList[tuple[int, int], Any]):\n    z = spec.get_static_trap(zone_id=\"mem\")\n    return (z, filled.vacate(z, more), z[0:2, 1], filled.shift(filled.vacate(z, []), 1.0, 0.0))\n"
    for dec in ("move", "kernel", "tweezer"):
        for order in (("V", "W", "V", "W"), ("W", "V")):
            for step, name in enumerate(order):
                Sx, zx = {"V": (V, view), "W": (W, fview)}[name]
                want = (zx, FGc.vacate(zx, more), zx[0:2, 1], FGc.vacate(zx, []).shift(1.0, 0.0))
                rep = {"spec_zone_src": vsrc.replace("{DEC}", dec + "(arch_spec=S)"), "decorator": dec, "how": "view, then filled over the view", "history": list(order), "step": step}
                ctx.evaluations += 1
                try:
                    got = kernels.define(vsrc.replace("{DEC}", dec + "(arch_spec=S)"), kernel=prelude.kernel, S=Sx)["main"](ilist.IList(more))
                except Exception as e:
                    ctx.fail({"kind": "kernel-raises", "decorator": dec, "spec_zone": "view / filled view history"}, rep, f"@{dec}(arch_spec=...) step {step} of {order}: raises {type(e).__name__}: {str(e)[:100]}")
                    continue
                bad = [nm for nm, x, y in zip("zabc", got, want) if show_val(x) != show_val(y)]
                if bad:
                    ctx.fail({"kind": "kernel-vs-method", "decorator": dec, "spec_zone": "view / filled view history"}, rep,
                             f"@{dec}(arch_spec=...) compiled for specs {order} in turn, step {step} (zone 'mem' is {'a view' if name == 'V' else 'a FILLED grid over that view'}): values {bad} differ from the methods, "
                             f"e.g. {show_val(got['zabc'.index(bad[0])])[:90]} instead of {show_val(want['zabc'.index(bad[0])])[:90]}")
                else:
                    ctx.nt(("view-filled-history", dec, order, step))


READ_SRC = """
@{DEC}
def main(sites: ilist.IList[tuple[int, int], Any], more: ilist.IList[tuple[int, int], Any]):
    a = filled.vacate(CZ, sites)
    b = filled.fill(CZ, more)
    lit = grid.from_positions([0.0, 1.0, 4.0], [0.0, 2.0])
    c = filled.vacate(lit, sites)
    d = filled.fill(filled.vacate(CZ, sites), more)
    return (grid.positions(a), grid.positions(b), grid.positions(c), grid.positions(d), grid.shape(a), grid.get_xpos(a), grid.get_ypos(b),
            grid.x_bounds(a), grid.y_bounds(c), grid.positions(filled.get_parent(a)), a, b, c, d)
"""

PARENT_SRC = """
@move
def bare(loaded: filled.FilledGrid[Any, Any]):
    return filled.get_parent(loaded)

@move
def damaged(z: grid.Grid[Any, Any], lost: ilist.IList[tuple[int, int], Any]):
    return filled.vacate(z, lost)

@move
def main(zone: grid.Grid[Any, Any], lost: ilist.IList[tuple[int, int], Any], sites: ilist.IList[tuple[int, int], Any]):
    v = damaged(zone, lost)
    p = filled.get_parent(v)
    w = filled.fill(bare(v), sites)
    q = filled.get_parent(filled.fill(zone, sites))
    u = filled.fill(filled.get_parent(filled.vacate(zone, lost)), sites)
    return (v, p, w, q, u, grid.positions(w), grid.positions(u), grid.shape(q))
"""


def _same_value(x, y):
    if hasattr(x, "vacancies") or hasattr(y, "vacancies") or hasattr(x, "x_positions"):
        return type(x).__name__ == type(y).__name__ and show_val(x) == show_val(y) and x == y and hash(x) == hash(y)
    flat = lambda v: [flat(e) for e in (v.data if hasattr(v, "data") else v)] if isinstance(v, (list, tuple)) or hasattr(v, "data") else v
    return flat(x) == flat(y)


def readings_and_passes(ctx):
    """(1) what the grid statements READ off a filled grid (positions, shape, axis positions, bounds) when the zone is a compile-time
    constant and the site lists arrive at run time, in every kernel kind and with the zone injected by the spec; (2) get_parent / fill /
    vacate through helper kernels after the library's own Fold and AggressiveUnroll passes (once and to a fixpoint), for a zone argument
    that is a plain grid and one that is ALREADY a filled grid: always the values of the Python methods"""
    from bloqade.geometry.dialects.grid import Grid
    from bloqade.shuttle import prelude
    from bloqade.shuttle.passes.fold import AggressiveUnroll
    from kirin.dialects import ilist
    FGc = FG()
    CZ = Grid.from_positions([0.0, 2.0, 3.0], [0.0, 1.5])
    lit = Grid.from_positions([0.0, 1.0, 4.0], [0.0, 2.0])
    n = 0
    for dec in ("move", "kernel", "tweezer"):
        try:
            m = kernels.define(READ_SRC.replace("{DEC}", dec), kernel=prelude.kernel, CZ=CZ)["main"]
        except Exception as e:
            ctx.evaluations += 1
            ctx.fail({"kind": "kernel-rejected", "decorator": dec, "form": "readings of a filled constant zone"}, {"readings": True, "decorator": dec},
                     f"@{dec} rejects a kernel reading positions / shape of filled grids over a constant zone: {type(e).__name__}: {str(e)[:140]}")
            continue
        for sites, more in (([(0, 0), (2, 1)], [(1, 1)]), ([], [(0, 0), (0, 1), (2, 0)]), ([(1, 0), (1, 1), (1, 0)], [(1, 0)])):
            a, b, c = FGc.vacate(CZ, sites), FGc.fill(CZ, more), FGc.vacate(lit, sites)
            d = FGc.fill(FGc.vacate(CZ, sites), more)
            want = (a.positions, b.positions, c.positions, d.positions, a.shape, tuple(a.x_positions), tuple(b.y_positions), a.x_bounds(), c.y_bounds(),
                    a.parent.positions, a, b, c, d)
            ctx.evaluations += 1
            n += 1
            rep = {"readings": True, "decorator": dec, "sites": sites, "more": more}
            try:
                got = m(ilist.IList(sites), ilist.IList(more))
            except Exception as e:
                ctx.fail({"kind": "kernel-raises", "decorator": dec, "form": "readings of a filled constant zone"}, rep, f"@{dec} kernel reading filled grids raises {type(e).__name__}: {str(e)[:120]}")
                continue
            names = ["positions(vacate)", "positions(fill)", "positions(vacate literal grid)", "positions(fill(vacate))", "shape", "get_xpos", "get_ypos", "x_bounds", "y_bounds",
                     "positions(get_parent)", "a", "b", "c", "d"]
            bad = [nm for nm, x, y in zip(names, got, want) if not _same_value(x, y)]
            if bad:
                k = names.index(bad[0])
                ctx.fail({"kind": "kernel-vs-method", "decorator": dec, "form": "readings of a filled constant zone", "reading": bad[0]}, rep,
                         f"@{dec} kernel over a constant zone with run-time sites {sites} / {more}: {bad[0]} is {str(got[k])[:110]} but the Python methods give {str(want[k])[:110]}")
            else:
                ctx.nt(("readings", dec, len(sites)))
    plain = Grid.from_positions([0.0, 1.0, 2.0], [0.0, 1.0])
    defective = FGc.vacate(plain, [(1, 1)])
    lost, sites = [(0, 0)], [(2, 1), (0, 1)]
    for treatment in ("as compiled", "Fold", "AggressiveUnroll", "AggressiveUnroll to a fixpoint"):
        try:
            m = kernels.define(PARENT_SRC)["main"]
            if treatment == "Fold":
                from bloqade.shuttle.passes.fold import Fold
                Fold(prelude.move)(m)
            elif treatment == "AggressiveUnroll":
                AggressiveUnroll(prelude.move)(m)
            elif treatment != "as compiled":
                AggressiveUnroll(prelude.move).fixpoint(m)
        except Exception as e:
            ctx.evaluations += 1
            ctx.fail({"kind": "kernel-rejected", "decorator": "move", "form": "get_parent through helpers", "treatment": treatment}, {"parent_passes": True, "treatment": treatment},
                     f"{treatment}: a kernel taking get_parent of helper results cannot be processed: {type(e).__name__}: {str(e)[:140]}")
            continue
        for zname, zone in (("a plain grid", plain), ("an already filled grid", defective)):
            v = FGc.vacate(zone, lost)
            w = FGc.fill(v.parent, sites)
            q = FGc.fill(zone, sites).parent
            u = FGc.fill(FGc.vacate(zone, lost).parent, sites)
            want = (v, v.parent, w, q, u, w.positions, u.positions, q.shape)
            ctx.evaluations += 1
            n += 1
            rep = {"parent_passes": True, "treatment": treatment, "zone": zname}
            try:
                got = m(zone, ilist.IList(lost), ilist.IList(sites))
            except Exception as e:
                ctx.fail({"kind": "kernel-raises", "decorator": "move", "form": "get_parent through helpers", "treatment": treatment}, rep,
                         f"{treatment}, zone {zname}: the kernel raises {type(e).__name__}: {str(e)[:120]}")
                continue
            names = ["vacate via helper", "get_parent", "fill(get_parent via helper)", "get_parent(fill)", "fill(get_parent(vacate))", "positions", "positions", "shape"]
            bad = [k for k, (x, y) in enumerate(zip(got, want)) if not _same_value(x, y)]
            if bad:
                k = bad[0]
                ctx.fail({"kind": "kernel-vs-method", "decorator": "move", "form": "get_parent through helpers", "treatment": treatment, "zone": zname}, rep,
                         f"{treatment}, zone {zname}: {names[k]} is {show_val(got[k])[:110] if hasattr(got[k], 'shape') else str(got[k])[:110]} but the Python methods give "
                         f"{show_val(want[k])[:110] if hasattr(want[k], 'shape') else str(want[k])[:110]}")
            else:
                ctx.nt(("parent-passes", treatment, zname))
    # how MANY sites a filled grid of statically known size has (len of its positions, a loop over them), for a grid that is not a
    # constant (shifted by an argument), after the same passes
    LEN_SRC = ("@move\ndef main(dx: float, sites: ilist.IList[tuple[int, int], Any]):\n    z = grid.from_positions([0.0, 1.0, 4.0], [0.0, 2.0])\n"
               "    f = filled.vacate(grid.shift(z, dx, 0.0), sites)\n    g = filled.fill(grid.shift(z, dx, 1.0), sites)\n    p = grid.positions(f)\n    acc = 0.0\n    i = 0\n"
               "    for i in range(len(p)):\n        acc = acc + p[i][0]\n    return (len(p), len(grid.positions(g)), acc, len(grid.positions(filled.get_parent(f))))\n")
    for treatment in ("as compiled", "Fold", "AggressiveUnroll", "AggressiveUnroll to a fixpoint"):
        try:
            m = kernels.define(LEN_SRC)["main"]
            if treatment == "Fold":
                from bloqade.shuttle.passes.fold import Fold
                Fold(prelude.move)(m)
            elif treatment == "AggressiveUnroll":
                AggressiveUnroll(prelude.move)(m)
            elif treatment != "as compiled":
                AggressiveUnroll(prelude.move).fixpoint(m)
        except Exception as e:
            ctx.evaluations += 1
            ctx.fail({"kind": "kernel-rejected", "decorator": "move", "form": "number of sites", "treatment": treatment}, {"parent_passes": True, "treatment": treatment},
                     f"{treatment}: a kernel counting the sites of filled grids cannot be processed: {type(e).__name__}: {str(e)[:140]}")
            continue
        for sites in ([(0, 0), (2, 1)], [(1, 0)], []):
            f = FGc.vacate(lit.shift(0.5, 0.0), sites)
            g = FGc.fill(lit.shift(0.5, 1.0), sites)
            want = (len(f.positions), len(g.positions), sum(x for x, _ in f.positions), 6)
            ctx.evaluations += 1
            n += 1
            rep = {"parent_passes": True, "treatment": treatment, "sites": sites}
            try:
                got = tuple(m(0.5, ilist.IList(sites)))
            except Exception as e:
                ctx.fail({"kind": "kernel-raises", "decorator": "move", "form": "number of sites", "treatment": treatment}, rep,
                         f"{treatment}, sites {sites}: counting the sites of a filled grid raises {type(e).__name__}: {str(e)[:120]}")
                continue
            if got[:2] != want[:2] or got[3] != want[3] or abs(got[2] - want[2]) > 1e-9:
                ctx.fail({"kind": "kernel-vs-method", "decorator": "move", "form": "number of sites", "treatment": treatment}, rep,
                         f"{treatment}, sites {sites}: (sites after vacate, sites after fill, sum of x, sites of the parent) is {got} but the Python methods give {want}")
            else:
                ctx.nt(("site-count", treatment, len(sites)))
    ctx.count("readings of filled constant zones (3 kernel kinds) and get_parent chains after the fold passes: agree with the methods", n)


def translated_filled_grid(ctx):
    """class FilledGrid translated from source on every run (harness/gen/filled_translate.py: set expressions, generators over
    product / enumerate / range, two worlds for isinstance(x, FilledGrid); fail-closed) and proved equal to Model/Filled.v"""
    from gen import filled_translate
    from vcommon import paths
    name = "dialects/filled/types.py: class FilledGrid is inside the translated fragment (generated model Gen_C12_src.v)"
    try:
        body = filled_translate.generate(paths.REPO)
    except Exception as e:
        ctx.obligation(name, False, f"{type(e).__name__}: {e}"[:300])
        return
    ctx.obligation(name, True)
    ok, log = coqrun.compile_lemma_file(ctx.bdir, "Gen_C12_src", body)
    closed = log.count("Closed under the global context")
    ctx.obligation("the translated fill / vacate / get_view / shift / scale / repeat / positions / __eq__ equal the hand model for every grid, vacancy list and "
                   "argument (src_*_eq), closed under the global context", ok and closed >= 8, log[-600:])


def run(ctx):
    readings_and_passes(ctx)
    translated_filled_grid(ctx)
    ctx.rule = ("chains of fill/vacate/shift/scale/repeat/get_view/get_parent from a grid built from positions: exhaustive = every vacancy subset of "
                "the 1x3, 2x2, 2x3 grids x a fixed list of second operations (all views of length <= 2 incl. repeated and reversed indices, "
                "repeat counts 0-3, shift, scale, fill, vacate, parent); random chains up to length 8 over 6 shapes; non-trivial = distinct "
                "results that are filled grids with at least one vacancy")
    cases = []
    for shape in ((1, 3), (2, 2), (2, 3)):
        nx, ny = shape
        cells = [(i, j) for i in range(nx) for j in range(ny)]
        subsets = list(itertools.chain.from_iterable(itertools.combinations(cells, k) for k in range(len(cells) + 1)))
        if ctx.quick and len(subsets) > 20:
            subsets = ctx.rng.sample(subsets, 20)
        for sub in subsets:
            for op2 in second_ops(shape):
                first = ("vacate", list(sub)) if (len(sub) + len(op2)) % 2 else ("fill", [c for c in cells if c not in sub])
                cases.append((BASES[shape], [first, op2]))
    nexh = len(cases)
    for _ in range(ctx.pick(500, 8000)):
        shape, ops = rand_chain(ctx.rng, 8)
        cases.append((BASES[shape], ops))
    ctx.count("exhaustive_small_scope_cases", nexh)
    rendered = []
    for base, ops in cases:
        v, err = run_chain(base, ops)
        ctx.evaluations += 1
        ctx.hist("chain_len", len(ops))
        ctx.hist("last_op", ops[-1][0])
        if v is None:
            text = "ERR"
            ctx.hist("outcome", "error:" + err)
        else:
            text = show_val(v)
            ctx.hist("outcome", "filled" if isinstance(v, FG()) else "plain")
            if isinstance(v, FG()) and v.vacancies:
                ctx.nt(text)
            oracle(ctx, base, ops, v)
        rendered.append(text)
    ctx.sample({"base_positions": cases[nexh][0], "ops": cases[nexh][1], "result": rendered[nexh][:300]})
    chunks = [list(range(i, min(i + 250, len(cases)))) for i in range(0, len(cases), 250)]
    bodies = [(f"chain_{k}", COQ_IMPORT + "Eval vm_compute in (lines (map (fun c => show_fres (apply_ops (fst c) (snd c))) %s))." %
               clist([case_coq(*cases[i]) for i in ch])) for k, ch in enumerate(chunks)]
    mism = []
    for ch, (ok, vals, log) in zip(chunks, coqrun.eval_many(ctx.bdir, bodies)):
        if not ok or len(vals) != 1 or len(vals[0]) != len(ch):
            ctx.obligation("coqc chain file evaluates", False, log[-800:])
            continue
        for i, line in zip(ch, vals[0]):
            if line != rendered[i]:
                mism.append({"base": cases[i][0], "ops": cases[i][1], "model": line[:300], "impl": rendered[i][:300]})
    ctx.correspondence("Model.Filled (over GridQ) vs FilledGrid methods: underlying grid, vacancy set, positions", len(cases), mism)
    kernel_level(ctx)
    kernel_level_forms(ctx)
    kernel_level_views(ctx)
    spec_zone_forms(ctx)
    ctx.explanation = ("23 theorems, parametric in the underlying grid and its operations (so independent of bloqade.geometry's arithmetic): "
                       "denotation, cumulative fill/vacate, shift/scale commute, views re-index for ALL index selections, repeat tiles for any "
                       "shape, equality iff same underlying grid and vacancy set, and the algebra of the operations (vacate/fill order-independent and idempotent, fill and vacate of the same sites cancel as sets, shift/scale commute with vacate and fill as values). Exact rational model of Grid for the correspondence; floats "
                       "restricted to dyadic values. Kernel-level statements compared with the methods on the Python side only.")


def replay(data):
    if data["input"].get("readings") or data["input"].get("parent_passes"):
        class C:
            def __init__(s): s.fails, s.evaluations = [], 0
            def fail(s, sig, rep, what): s.fails.append(what)
            def nt(s, *a): pass
            def count(s, *a): pass
        c = C()
        readings_and_passes(c)
        return bool(c.fails), (c.fails or ["kernel-level readings and get_parent chains agree with the methods"])[0][:200]
    inp = data["input"]
    if "form_src" in inp:
        class K:
            def __init__(s): s.fails, s.evaluations = [], 0
            def fail(s, sig, rep, what): s.fails.append((rep.get("decorator"), what))
            def nt(s, *a): pass
            def count(s, *a): pass
        k = K()
        kernel_level_forms(k)
        mine = [w for d, w in k.fails if d == inp.get("decorator")]
        return bool(mine), (mine or ["agrees with the methods"])[0][:200]
    if "view_src" in inp:
        class K:
            def __init__(s): s.fails, s.evaluations = [], 0
            def fail(s, sig, rep, what): s.fails.append((rep.get("decorator"), what))
            def nt(s, *a): pass
            def count(s, *a): pass
        k = K()
        kernel_level_views(k)
        mine = [w for d, w in k.fails if d == inp.get("decorator")]
        return bool(mine), (mine or ["agrees with the methods"])[0][:200]
    if "spec_zone_src" in inp:
        class K:
            def __init__(s): s.fails, s.evaluations = [], 0
            def fail(s, sig, rep, what): s.fails.append(((rep.get("decorator"), rep.get("how")), what))
            def nt(s, *a): pass
            def count(s, *a): pass
        k = K()
        spec_zone_forms(k)
        mine = [w for d, w in k.fails if d == (inp.get("decorator"), inp.get("how"))]
        return bool(mine), (mine or ["agrees with the methods"])[0][:200]
    if "base" not in inp:
        return True, "kernel-level replay: re-run bin/check C12"

    class C:
        def __init__(s): s.fails = []
        def fail(s, sig, rep, what): s.fails.append(what)
    c = C()
    base = (inp["base"][0], inp["base"][1])
    ops = [tuple(o) for o in inp["ops"]]
    v, err = run_chain(base, ops)
    if v is None:
        return False, "chain raises " + err
    oracle(c, base, ops, v)
    return bool(c.fails), "; ".join(c.fails[:3]) or "holds"
