"""C05 - a device call yields the same path on every evaluation route."""
import itertools

from vcommon import coqrun, events
from vcommon.coqrun import clist, cnat, cstr

from gen import kernels, tweezer_prog
from props import tracer_common as tc

COQ_IMPORT = "From BS Require Import Core.Show Core.Base Model.Gen3.\n"


def kernel_src(n, fail=False):
    ps = [f"p{i}" for i in range(n)]
    sig = ", ".join(f"{p}: float" for p in ps)
    g = lambda a, b: f"grid.from_positions([{a}], [{b}])"
    x = lambda i, d: ps[i] if i < n else d
    body = [f"    action.set_loc({g(x(0, '100.0'), x(1, '101.0'))})", "    action.turn_on([0], [0])"]
    if fail:
        body.append("    assert 1.0 < 0.0")
    body.append(f"    action.move({g(x(2, '102.0'), x(3, '103.0'))})")
    return f"@tweezer\ndef k{n}{'f' if fail else ''}({sig}):\n" + "\n".join(body) + "\n"


def args_from_path(apath, n, reverse):
    """read the ordered arguments back from the path the call produced"""
    segs = [a for a in apath if a[0] == "W"]
    wps = [g for s in segs for g in s[1]]
    if reverse:
        wps = wps[::-1]
    first, last = wps[0], wps[-1]
    vals = [first.x_positions[0], first.y_positions[0], last.x_positions[0], last.y_positions[0]]
    out = []
    for v in vals[:n]:
        try:
            out.append(int(v))
        except Exception:
            out.append(f"not-a-number:{type(v).__name__}")     # e.g. a const-lattice placeholder baked into a folded path
    return out


# (name, decorator options, plain interpreter?, operands passed as kernel parameters?)
ROUTES = [("compile-time spec, operands partly constant and partly kernel parameters (must not be folded)", "(arch_spec=S)", True, "mixed"),
          ("fold (compile-time spec, constant operands)", "(arch_spec=S)", True, False),
          ("recorded spec, plain interpreter (non-constant operands)", "(arch_spec=S)", True, True),
          ("run-time spec interpreter", "", False, False),
          ("run-time spec interpreter, non-constant operands, fold=False", "(fold=False)", False, True)]


def run_call(S, ns, n, call_expr, dec, plain, params="", args=()):
    src = (f"@move{dec}\ndef main({params}):\n    f = schedule.device_fn(k{n}, [0, 1], [0, 2])\n"
           f"    r = schedule.reverse(f)\n    {call_expr}\n")
    m = kernels.define(src, S=S, **ns)["main"]
    return m, events.run_events(m, args, S, plain=plain), src


def translated_gen(ctx):
    """the three implementations of path.Gen translated from source on every run (harness/gen/gen3_translate.py: symbolic execution with case
    splits on the recorded spec, the lattice values and the kind of task; fail-closed) and proved equal to Model/Gen3.v"""
    from gen import gen3_translate
    from vcommon import paths
    name = "path/concrete.py, path/spec_interp.py and path/constprop.py are inside the translated fragment (generated model Gen_C05_src.v)"
    try:
        body = gen3_translate.generate(paths.REPO)
    except Exception as e:
        ctx.obligation(name, False, f"{type(e).__name__}: {e}"[:300])
        return
    ctx.obligation(name, True)
    ok, log = coqrun.compile_lemma_file(ctx.bdir, "Gen_C05_src", body)
    closed = log.count("Closed under the global context")
    ctx.obligation("the translated gen methods equal gen_main / gen_spec / gen_constprop for all specs, tasks, operands and keyword lists "
                   "(src_gen_*_eq), closed under the global context", ok and closed >= 3, log[-600:])


def run(ctx):
    translated_gen(ctx)
    from kirin import ir
    from kirin.dialects import py
    from bloqade.shuttle.dialects import path
    S = tweezer_prog.harness_spec()
    ctx.rule = ("kernels of arity 0-4 whose path encodes every argument; every positional/keyword split and EVERY permutation of the keyword "
                "order (exhaustive), forward and reversed wrapper, constant and non-constant operands, on 4 routes (fold with compile-time spec, "
                "plain interpreter with the recorded spec, spec-carrying interpreter, the latter without fold); plus the no-path cases: no spec, "
                "failing kernel, callee that is not a device function, missing keyword; non-trivial = distinct (arity, split, order, direction)")
    ctx.exhaustive = True
    ns = {}
    for n in range(5):
        ns.update({k: v for k, v in kernels.define(kernel_src(n)).items() if k.startswith("k")})
        ns.update({k: v for k, v in kernels.define(kernel_src(n, fail=True)).items() if k.startswith("k")})
    cases = []
    for n in range(5):
        names = [f"p{i}" for i in range(n)]
        vals = list(range(1, n + 1))
        for npos in range(n + 1):
            for order in itertools.permutations(range(npos, n)):
                for callee, rev in (("f", False), ("r", True)):
                    parts = [f"{float(vals[i])}" for i in range(npos)] + [f"{names[i]}={float(vals[i])}" for i in order]
                    expr = f"{callee}({', '.join(parts)})"
                    vparts = [f"x{i}" for i in range(npos)] + [f"{names[i]}=x{i}" for i in order]
                    vexpr = f"{callee}({', '.join(vparts)})"
                    vparams = ", ".join(f"x{i}: float" for i in range(n))
                    # even-numbered operands literal, odd-numbered ones kernel parameters
                    mparts = [(f"{float(vals[i])}" if i % 2 == 0 else f"x{i}") for i in range(npos)] + \
                             [f"{names[i]}=" + (f"{float(vals[i])}" if i % 2 == 0 else f"x{i}") for i in order]
                    mexpr = f"{callee}({', '.join(mparts)})"
                    shipped = [vals[i] for i in range(npos)] + [vals[i] for i in order]
                    kw = [names[i] for i in order]
                    observed = {}
                    for rname, dec, plain, byparam in ROUTES:
                        try:
                            if byparam == "mixed":
                                if n < 2:
                                    continue
                                m, (st, evs, extra), src = run_call(S, ns, n, mexpr, dec, plain, params=vparams,
                                                                    args=tuple(float(v) for v in vals))
                            elif byparam:
                                m, (st, evs, extra), src = run_call(S, ns, n, vexpr, dec, plain, params=vparams,
                                                                    args=tuple(float(v) for v in vals))
                            else:
                                m, (st, evs, extra), src = run_call(S, ns, n, expr, dec, plain)
                        except Exception as e:
                            st, evs, extra, src, m = "err", [], f"definition: {type(e).__name__}: {e}", expr, None
                        ctx.evaluations += 1
                        rep = {"call": expr, "arity": n, "route": rname}
                        if st != "ok" or len(evs) != 1 or evs[0][0] != "play":
                            ctx.fail({"kind": "no-path", "route": rname, "arity": n, "npos": npos}, rep, f"{rname}: {expr} did not play a path: {extra}")
                            continue
                        pv = evs[0][1]
                        ap = tc.abstract_path(pv.path)
                        observed[rname] = (args_from_path(ap, n, rev), list(pv.x_tones), list(pv.y_tones),
                                           tc.path_text(ap, tc.GridTable()))
                        if m is not None:
                            left = [s for s in m.callable_region.walk() if isinstance(s, path.Gen)]
                            stamped = any(s.arch_spec is not None for s in left)
                            ctx.hist("route taken", rname + ": " + ("folded at compile time" if not left else
                                                                     "Gen evaluated at run time, spec " + ("recorded" if stamped else "from interpreter")))
                    direct = tc.abstract_path(tc.run_impl(ns[f"k{n}"], tuple(float(v) for v in vals), S)[1])
                    if rev:
                        from props.c02 import _rev_abs
                        direct = _rev_abs(direct)
                    want_text = tc.path_text(direct, tc.GridTable())
                    for rname, (got_args, xt, yt, txt) in observed.items():
                        if got_args != vals or (xt, yt) != ([0, 1], [0, 2]) or txt != want_text:
                            ctx.fail({"kind": "wrong-path", "route": rname, "arity": n, "npos": npos, "kw_order": kw, "reversed": rev},
                                     {"call": expr, "route": rname},
                                     f"{rname}: {expr} gave arguments {got_args} tones {xt}/{yt} (expected {vals}, [0,1]/[0,2]) path {txt[:120]}")
                    if len({v[3] for v in observed.values()}) > 1:
                        ctx.fail({"kind": "routes-disagree", "arity": n, "npos": npos, "kw_order": kw}, {"call": expr}, f"routes disagree on {expr}")
                    ctx.nt((n, npos, order, rev))
                    got = next(iter(observed.values()))[0] if observed else None
                    cases.append((n, shipped, kw, got))
    ctx.sample({"call": "f(1.0, p3=4.0, p1=2.0, p2=3.0)", "ordered arguments read back from the path": [1, 2, 3, 4]})
    # ---- Coq: permute on the same (signature, shipped values, keyword names) ----
    body = COQ_IMPORT + ("Definition sigs (n : nat) : list string := firstn n [\"p0\"; \"p1\"; \"p2\"; \"p3\"]%string.\n"
                         "Definition row (c : nat * list nat * list string) : string :=\n"
                         "  match c with (n, vals, kw) => show_res (show_list show_nat) (permute nat (sigs n) vals kw) end.\n")
    body += "Eval vm_compute in (lines (map row %s))." % clist(
        [f"({cnat(n)}, {clist([cnat(v) for v in sh])}, {clist([cstr(k) for k in kw])})" for n, sh, kw, _ in cases])
    ok, vals_, log = coqrun.eval_lines(ctx.bdir, "permute", body)
    mism = []
    if not ok or len(vals_) != 1 or len(vals_[0]) != len(cases):
        ctx.obligation("coqc permute file evaluates", False, log[-800:])
    else:
        for (n, sh, kw, got), line in zip(cases, vals_[0]):
            want = "ERR" if got is None else "[" + ",".join(map(str, got)) + "]"
            if line != want:
                mism.append({"arity": n, "shipped": sh, "kw": kw, "model": line, "impl": want})
    ctx.correspondence("Model.Gen3.permute vs the argument order the evaluators actually used (read back from paths)", len(cases), mism)
    no_path_cases(ctx, S, ns)
    spec_reading_cases(ctx)
    helper_subroutine_cases(ctx)
    route_agreement_cases(ctx)
    branch_selected_cases(ctx, S)
    no_switch_cases(ctx, S)
    tone_list_cases(ctx, S)
    repeated_statement_cases(ctx, S)
    ctx.explanation = ("Theorems for an ARBITRARY tracer: the three evaluators compute the same outcome whenever they have the same spec; folding "
                       "returns a path only if the run-time routes return that path; no spec / non-device callee / failing kernel give no path on "
                       "any route; reversed wrapper = reversed path; every permutation of the keyword pairs gives the signature-ordered argument "
                       "list. Correspondence exhaustive over arities 0-4.")


def second_spec():
    from bloqade.geometry.dialects.grid import Grid
    from bloqade.shuttle.arch import ArchSpec, Layout
    traps = Grid.from_positions([100.0, 103.0, 107.0], [50.0, 52.0, 54.0, 56.0])
    aux = Grid.from_positions([-20.0, -21.5][::-1], [1.0, 2.0])
    lay = Layout(static_traps={"traps": traps, "aux": aux}, fillable={"traps"}, has_cz={"traps"}, has_local=set(), special_grid={})
    return ArchSpec(layout=lay, float_constants={"pitch": 0.75, "origin": 0.0}, int_constants={"rows": 4, "zero": 0})


def pos_text(ap):
    """a path with the coordinates of every waypoint spelled out (path_text names grids abstractly)"""
    out = []
    for a in ap:
        if a[0] == "W":
            # (coordinates, and for a filled grid its vacancies: a masked grid is another waypoint than the grid under it)
            out.append("W" + ";".join(f"{tuple(g.x_positions)}x{tuple(g.y_positions)}" + (f"-vacant{sorted(g.vacancies)}" if hasattr(g, "vacancies") else "") for g in a[1]))
        else:
            out.append(f"S({a[1]},{a[4]},{a[5]})")
    return " ".join(out)


def tone_list_cases(ctx, S):
    """device functions whose tone lists are empty on one or both axes, a single tone, non-contiguous tones: every route returns the
    traced path of the kernel with exactly those tones, forward and reversed; a failing kernel gives no path whatever the tones"""
    kinds = {
        "kex": ("[]", "[0]", "    g = grid.from_positions([], [p1])\n"),
        "key": ("[0, 1]", "[]", "    g = grid.from_positions([p0, p0 + 2.0], [])\n"),
        "kexy": ("[]", "[]", "    g = grid.from_positions([], [])\n"),
        "kone": ("[3]", "[5]", "    g = grid.from_positions([p0], [p1])\n"),
        "kgap": ("[1, 4]", "[2]", "    g = grid.from_positions([p0, p0 + 2.0], [p1])\n"),
    }
    body = ("    action.set_loc(g)\n    action.turn_on(action.ALL, action.ALL)\n    action.move(grid.shift(g, 1.0, 0.5))\n"
            "    action.move(grid.shift(g, 1.0, 2.5))\n    action.turn_off(action.ALL, action.ALL)\n")
    n_ok = 0
    for kname, (xt, yt, head) in kinds.items():
        ksrc = f"@tweezer\ndef {kname}(p0: float, p1: float):\n{head}{body}"
        kbad = f"@tweezer\ndef {kname}_bad(p0: float, p1: float):\n{head}    action.move(g)\n{body}"
        ns = {kname: kernels.define(ksrc)[kname], kname + "_bad": kernels.define(kbad)[kname + "_bad"]}
        want_tones = (list(eval(xt)), list(eval(yt)))
        for callee, rev in (("f", False), ("r", True)):
            direct = tc.abstract_path(tc.run_impl(ns[kname], (1.0, 3.0), S)[1])
            if rev:
                from props.c02 import _rev_abs
                direct = _rev_abs(direct)
            want = pos_text(direct)
            for rname, dec, plain, byparam in ROUTES:
                call = {False: f"{callee}(1.0, p1=3.0)", True: f"{callee}(x0, p1=x1)", "mixed": f"{callee}(1.0, p1=x1)"}[byparam]
                for bad in (False, True):
                    kn = kname + ("_bad" if bad else "")
                    src = (f"@move{dec}\ndef main({'x0: float, x1: float' if byparam else ''}):\n    f = schedule.device_fn({kn}, {xt}, {yt})\n"
                           f"    r = schedule.reverse(f)\n    {call}\n")
                    try:
                        m = kernels.define(src, S=S, **ns)["main"]
                        st, evs, extra = events.run_events(m, (1.0, 3.0) if byparam else (), S, plain=plain)
                    except Exception as e:
                        st, evs, extra = "err", [], f"{type(e).__name__}: {e}"
                    ctx.evaluations += 1
                    rep = {"kernel": kbad if bad else ksrc, "main": src, "route": rname, "tones": [xt, yt]}
                    if bad:
                        if st == "ok" and any(e[0] == "play" for e in evs):
                            ctx.fail({"kind": "path-from-failing-kernel", "route": rname, "tone_lists": f"{xt}/{yt}"}, rep,
                                     f"{rname}: a kernel that moves before set_loc (tones {xt}/{yt}) is given a path")
                        else:
                            n_ok += 1
                        continue
                    if st != "ok" or len(evs) != 1 or evs[0][0] != "play":
                        ctx.fail({"kind": "no-path", "route": rname, "tone_lists": f"{xt}/{yt}"}, rep, f"{rname}: device function with tones {xt}/{yt} did not play a path: {str(extra)[:120]}")
                        continue
                    got = pos_text(tc.abstract_path(evs[0][1].path))
                    tones = (list(evs[0][1].x_tones), list(evs[0][1].y_tones))
                    if got != want or tones != want_tones:
                        ctx.fail({"kind": "wrong-path", "route": rname, "tone_lists": f"{xt}/{yt}", "reversed": rev}, rep,
                                 f"{rname}: {'reversed ' if rev else ''}device function with tones {xt}/{yt} gave tones {tones} path {got[:100]} expected {want[:100]}")
                    else:
                        n_ok += 1
                        ctx.nt(("tones", kname, rname, rev))
    ctx.count("tone-list forms x routes x fwd/rev x (working, failing kernel): agree", n_ok)


def no_switch_cases(ctx, S):
    """kernels that never switch a tone (their trace is a single waypoint segment), forward and reversed, on every route"""
    ksrc = ('@tweezer\ndef kmv(p0: float, p1: float):\n    action.set_loc(grid.from_positions([p0], [0.0]))\n'
            '    action.move(grid.from_positions([p1], [0.0]))\n    action.move(grid.from_positions([p0 + p1], [1.0]))\n')
    k1src = '@tweezer\ndef kone(p0: float, p1: float):\n    action.set_loc(grid.from_positions([p0], [p1]))\n'
    ns = {}
    ns.update({k: v for k, v in kernels.define(ksrc).items() if k == "kmv"})
    ns.update({k: v for k, v in kernels.define(k1src).items() if k == "kone"})
    n_ok = 0
    for kname in ("kmv", "kone"):
        for callee, rev in (("f", False), ("r", True)):
            direct = tc.abstract_path(tc.run_impl(ns[kname], (1.0, 3.0), S)[1])
            if rev:
                from props.c02 import _rev_abs
                direct = _rev_abs(direct)
            want = pos_text(direct)
            for rname, dec, plain, byparam in ROUTES:
                call = {False: f"{callee}(1.0, p1=3.0)", True: f"{callee}(x0, p1=x1)", "mixed": f"{callee}(1.0, p1=x1)"}[byparam]
                src = (f"@move{dec}\ndef main({'x0: float, x1: float' if byparam else ''}):\n    f = schedule.device_fn({kname}, [0], [0])\n"
                       f"    r = schedule.reverse(f)\n    {call}\n")
                try:
                    m = kernels.define(src, S=S, **ns)["main"]
                    st, evs, extra = events.run_events(m, (1.0, 3.0) if byparam else (), S, plain=plain)
                except Exception as e:
                    st, evs, extra = "err", [], f"{type(e).__name__}: {e}"
                ctx.evaluations += 1
                rep = {"kernel": ksrc if kname == "kmv" else k1src, "main": src, "route": rname}
                if st != "ok" or len(evs) != 1 or evs[0][0] != "play":
                    ctx.fail({"kind": "no-path", "route": rname, "switch_free_kernel": True}, rep, f"{rname}: switch-free kernel did not play a path: {extra}")
                    continue
                got = pos_text(tc.abstract_path(evs[0][1].path))
                if got != want:
                    ctx.fail({"kind": "wrong-path", "route": rname, "switch_free_kernel": True, "reversed": rev}, rep,
                             f"{rname}: {'reversed ' if rev else ''}switch-free kernel {kname} gave {got[:120]} expected {want[:120]}")
                else:
                    n_ok += 1
    ctx.count("switch-free kernels x routes x fwd/rev: agree", n_ok)


REPEATED_SRC = '''
@tweezer
def shift_row(xs: ilist.IList[float, Any], y: float):
    start = grid.from_positions(xs, [y])
    action.set_loc(start)
    action.turn_on(action.ALL, action.ALL)
    action.move(grid.shift(start, 1.0, 0.5))
    action.turn_off(action.ALL, action.ALL)

@move{SUBDEC}
def shuttle(xs: ilist.IList[float, Any], y: float):
    f = schedule.device_fn(shift_row, ilist.range(len(xs)), [0])
    f(xs, y)

@move{DEC}
def main({PARAMS}):
{BODY}
'''

REPEATED_BODIES = {
    # the same device_fn statement evaluated for a batch of one, of three and of two
    "subroutine called with batches of different sizes":
        ("    shuttle({A}, {Y})\n    shuttle({B}, {Y})\n    shuttle({C}, {Y})\n", False),
    "device_fn in a loop body, tone list growing with the iteration":
        ("    i = 0\n    for i in range(3):\n        g = schedule.device_fn(shift_row, ilist.range(i + 1), [0])\n"
         "        g({B}[0:i + 1], {Y})\n", True),
    "subroutine called in a loop and once more after it":
        ("    i = 0\n    for i in range(2):\n        shuttle({A}, {Y})\n    shuttle({B}, {Y})\n", False),
}


def repeated_statement_cases(ctx, S):
    """one schedule.device_fn statement evaluated several times with different tone operands (subroutine entered repeatedly,
    loop body): every evaluation builds the device function of ITS operands, on every route"""
    A, B, C, Y = [1.0], [1.0, 3.0, 6.0], [2.0, 4.0], 2.0
    n_ok = 0
    for label, (body, slices) in REPEATED_BODIES.items():
        wants = None
        for rname, dec, subdec, plain, byparam in (
                ("compile-time spec, constant operands (folded / inlined)", "(arch_spec=S)", "", True, False),
                ("compile-time spec, aggressive unrolling", "(arch_spec=S, aggressive=True)", "", True, False),
                ("recorded spec, plain interpreter, run-time operands", "(arch_spec=S, fold=False)", "(fold=False)", True, True),
                ("run-time spec interpreter, run-time operands", "(fold=False)", "(fold=False)", False, True),
                ("run-time spec interpreter, constant operands", "", "", False, False)):
            if byparam:
                params = "a: ilist.IList[float, Any], b: ilist.IList[float, Any], c: ilist.IList[float, Any], y: float"
                text = body.format(A="a", B="b", C="c", Y="y")
                args = (_il(A), _il(B), _il(C), Y)
            else:
                params, text, args = "", body.format(A=repr(A), B=repr(B), C=repr(C), Y=repr(Y)), ()
            src = REPEATED_SRC.replace("{SUBDEC}", subdec).replace("{DEC}", dec).replace("{PARAMS}", params).replace("{BODY}", text)
            ctx.evaluations += 1
            rep = {"repeated_src": src, "route": rname, "case": label, "plain": plain, "byparam": byparam}
            try:
                m = kernels.define(src, S=S)["main"]
                st, evs, extra = events.run_events(m, args, S, plain=plain)
            except Exception as e:
                st, evs, extra = "err", [], f"{type(e).__name__}: {e}"
            if st != "ok" or not evs or any(e[0] != "play" for e in evs):
                ctx.hist("repeated device_fn statement", f"{rname}: no path")
                ctx.fail({"kind": "no-path", "route": rname, "repeated_statement": True}, rep, f"{rname}: {label}: did not play: {str(extra)[:160]}")
                continue
            got = [(list(e[1].x_tones), list(e[1].y_tones), pos_text(tc.abstract_path(e[1].path))) for e in evs]
            # what each call must play: the traced path of the kernel on that call's operands, with one tone per position
            if wants is None:
                shift_row = kernels.define(src, S=S)["shift_row"]
                batches = {"subroutine called with batches of different sizes": [A, B, C],
                           "device_fn in a loop body, tone list growing with the iteration": [B[:1], B[:2], B[:3]],
                           "subroutine called in a loop and once more after it": [A, A, B]}[label]
                wants = [(list(range(len(b))), [0], pos_text(tc.abstract_path(tc.run_impl(shift_row, (_il(b), Y), S)[1]))) for b in batches]
            if got != wants:
                k = next((j for j in range(min(len(got), len(wants))) if got[j] != wants[j]), min(len(got), len(wants)))
                ctx.hist("repeated device_fn statement", f"{rname}: DIFFERS")
                ctx.fail({"kind": "wrong-path", "route": rname, "repeated_statement": True}, rep,
                         f"{rname}: {label}: call {k} played tones/path {str(got[k] if k < len(got) else None)[:120]} expected {str(wants[k] if k < len(wants) else None)[:120]}")
            else:
                n_ok += 1
                ctx.hist("repeated device_fn statement", f"{rname}: agrees")
                ctx.nt(("repeated", label, rname))
    ctx.count("repeated device_fn statement x routes: agree", n_ok)


def _il(l):
    from kirin.dialects import ilist
    return ilist.IList(list(l))


def spec_reading_cases(ctx):
    """device kernels that read the spec while being traced, evaluated on every route under two
    different specs in alternation within one process (a route must use the spec of THIS evaluation)"""
    from bloqade.geometry.dialects.grid import Grid
    from bloqade.shuttle.arch import ArchSpec, Layout

    def with_shared_names(S0, dx):
        # "traps" names a static trap AND (another grid) a special grid; "aux" stays a static trap only
        L0 = S0.layout
        lay = Layout(dict(L0.static_traps), set(L0.fillable), set(L0.has_cz), set(L0.has_local),
                     special_grid={**L0.special_grid, "traps": Grid.from_positions([300.0 + dx, 301.0 + dx], [40.0, 41.5])})
        return ArchSpec(layout=lay, float_constants=dict(S0.float_constants), int_constants=dict(S0.int_constants))
    SA, SB = with_shared_names(tweezer_prog.harness_spec(), 0.0), with_shared_names(second_spec(), 50.0)
    ksrc = ('@tweezer\ndef kz(p0: float):\n    z = spec.get_static_trap(zone_id="traps")\n'
            '    action.set_loc(grid.sub_grid(z, [0], [1]))\n    action.turn_on([0], [0])\n'
            '    action.move(grid.shift(grid.sub_grid(z, [0], [1]), p0 * spec.get_float_constant(constant_id="pitch"), 0.0))\n'
            # constants whose value is falsy (0.0 / 0): an offset of zero is still a defined constant
            '    action.move(grid.shift(grid.sub_grid(z, [0], [1]), spec.get_float_constant(constant_id="origin"), 1.0 + spec.get_int_constant(constant_id="zero")))\n'
            # a special grid that shares its name with a static trap
            '    action.move(grid.sub_grid(spec.get_special_grid(grid_id="traps"), [1], [0]))\n')
    kz = kernels.define(ksrc)["kz"]
    n_ok = 0
    for rnd in range(2):
        for S, sname in ((SA, "A"), (SB, "B"), (SA, "A")):
            for callee, rev in (("f", False), ("r", True)):
                # the reference is the kernel's source evaluated natively (no interpreter of the implementation involved)
                direct = tc.ref_trace(tc.run_native(ksrc, "kz", (2.0,), S)[1])
                if rev:
                    from props.c02 import _rev_abs
                    direct = _rev_abs(direct)
                want = pos_text(direct)
                for rname, dec, plain, byparam in ROUTES:
                    call = f"{callee}(p0=x0)" if byparam else f"{callee}(2.0)"
                    src = (f"@move{dec}\ndef main({'x0: float' if byparam else ''}):\n    f = schedule.device_fn(kz, [0], [0])\n"
                           f"    r = schedule.reverse(f)\n    {call}\n")
                    try:
                        m = kernels.define(src, S=S, kz=kz)["main"]
                        st, evs, extra = events.run_events(m, (2.0,) if byparam else (), S, plain=plain)
                    except Exception as e:
                        st, evs, extra = "err", [], f"{type(e).__name__}: {e}"
                    ctx.evaluations += 1
                    rep = {"kernel": ksrc, "main": src, "spec": sname, "route": rname, "history": "specs A,B,A alternating, twice"}
                    if st != "ok" or len(evs) != 1 or evs[0][0] != "play":
                        ctx.fail({"kind": "no-path", "route": rname, "spec_reading_kernel": True}, rep, f"{rname}: spec-reading kernel under spec {sname} did not play a path: {extra}")
                        continue
                    got = pos_text(tc.abstract_path(evs[0][1].path))
                    if got != want:
                        ctx.fail({"kind": "wrong-path", "route": rname, "spec_reading_kernel": True, "reversed": rev}, rep,
                                 f"{rname}: kernel reading the spec, evaluated under spec {sname} after another spec was used, gave {got[:100]} expected {want[:100]}")
                    else:
                        n_ok += 1
                # the library's own spec-carrying interpreter, the PathVisualizer: what it hands to its renderer is the same path
                for dec in ("", "(arch_spec=S)"):
                    src = (f"@move{dec}\ndef main(x0: float):\n    f = schedule.device_fn(kz, [0], [0])\n    r = schedule.reverse(f)\n    {callee}(p0=x0)\n    {callee}(2.0)\n")
                    rep = {"kernel": ksrc, "main": src, "spec": sname, "route": "PathVisualizer" + dec, "history": "specs A,B,A alternating, twice"}
                    ctx.evaluations += 1
                    try:
                        drawn = _visualized(kernels.define(src, S=S, kz=kz)["main"], (2.0,), S)
                    except Exception as e:
                        ctx.fail({"kind": "no-path", "route": "PathVisualizer" + dec, "spec_reading_kernel": True}, rep,
                                 f"PathVisualizer{dec} carrying spec {sname}: spec-reading kernel did not play a path: {type(e).__name__}: {str(e)[:120]}")
                        continue
                    got = [pos_text(tc.abstract_path(pv.path)) for pv in drawn]
                    if got != [want, want]:
                        ctx.fail({"kind": "wrong-path", "route": "PathVisualizer" + dec, "spec_reading_kernel": True, "reversed": rev}, rep,
                                 f"PathVisualizer{dec} carrying spec {sname}: kernel reading the spec gave {str(got)[:120]} expected twice {want[:100]}")
                    else:
                        n_ok += 1
    ctx.count("spec-reading kernel x 2 specs alternating x (4 routes + PathVisualizer on both compilations) x fwd/rev: agree", n_ok)


def helper_subroutine_cases(ctx):
    """device functions, forward and REVERSED, that are already constants of a helper subroutine compiled on its own (plain @move), and two
    DIFFERENT tweezer kernels that share one name, reached from one kernel: called through the helper from kernels on every route, the
    plays are the natively traced paths of the right kernel, in the right direction"""
    from props.c02 import _rev_abs
    S = tweezer_prog.harness_spec()
    mk = lambda dy: ('@tweezer\ndef kz(p0: float):\n    z = spec.get_static_trap(zone_id="traps")\n    s = grid.sub_grid(z, [0], [1])\n    action.set_loc(s)\n    action.turn_on([0], [0])\n'
                     f'    action.move(grid.shift(s, p0 * spec.get_float_constant(constant_id="pitch"), {dy}))\n    action.move(grid.shift(s, p0, {dy} + 1.0))\n')
    src_a, src_b = mk("0.5"), mk("4.0")
    kz_a, kz_b = kernels.define(src_a)["kz"], kernels.define(src_b)["kz"]
    helpers = ("@move\ndef there_and_back(x0: float):\n    f = schedule.device_fn(kz_a, [0], [0])\n    r = schedule.reverse(f)\n    r(x0)\n    f(x0)\n    schedule.reverse(r)(p0=x0)\n\n"
               "@move\ndef other(x0: float):\n    g = schedule.device_fn(kz_b, [0], [0])\n    g(x0)\n    schedule.reverse(g)(x0)\n\n")
    ns = kernels.define(helpers, kz_a=kz_a, kz_b=kz_b)
    ref = {}
    for tag, ksrc in (("a", src_a), ("b", src_b)):
        fwd = tc.ref_trace(tc.run_native(ksrc, "kz", (2.0,), S)[1])
        ref[tag + "f"], ref[tag + "r"] = pos_text(fwd), pos_text(_rev_abs(fwd))
    want = [ref["ar"], ref["af"], ref["af"], ref["bf"], ref["br"], ref["ar"], ref["af"], ref["af"], ref["af"], ref["bf"], ref["br"], ref["ar"]]
    n_ok = 0
    for rname, dec, plain, byparam in ROUTES:
        arg = "x0" if byparam else "2.0"
        src = (f"@move{dec}\ndef main({'x0: float' if byparam else ''}):\n    there_and_back({arg})\n    other({arg})\n    there_and_back(2.0)\n"
               f"    fa = schedule.device_fn(kz_a, [0], [0])\n    fb = schedule.device_fn(kz_b, [0], [0])\n    fa({arg})\n    fb({arg})\n    schedule.reverse(fb)(p0={arg})\n    schedule.reverse(fa)({arg})\n")
        rep = {"helper_subroutines": True, "route": rname, "main": src}
        ctx.evaluations += 1
        try:
            m = kernels.define(src, S=S, there_and_back=ns["there_and_back"], other=ns["other"], kz_a=kz_a, kz_b=kz_b)["main"]
            st, evs, extra = events.run_events(m, (2.0,) if byparam else (), S, plain=plain)
        except Exception as e:
            st, evs, extra = "err", [], f"{type(e).__name__}: {e}"
        if st != "ok" or [e[0] for e in evs] != ["play"] * len(want):
            ctx.fail({"kind": "no-path", "route": rname, "helper_subroutines": True}, rep, f"{rname}: device functions held as constants of helper subroutines were not all played: {str(extra)[:120]} ({len(evs)} events)")
            continue
        got = [pos_text(tc.abstract_path(e[1].path)) for e in evs]
        bad = [j for j in range(len(want)) if got[j] != want[j]]
        if bad:
            j = bad[0]
            ctx.fail({"kind": "wrong-path", "route": rname, "helper_subroutines": True, "play": j}, rep,
                     f"{rname}: play {j} of a kernel calling helper subroutines (forward / reversed constants, two kernels of one name) is {got[j][:110]} expected {want[j][:110]}")
        else:
            n_ok += 1
            ctx.nt(("helper-subroutines", rname))
    ctx.count("helper subroutines holding forward / reversed device functions of two same-named kernels x routes: agree", n_ok)


def route_agreement_cases(ctx):
    """kernels on which the routes can only agree by all answering the same way: a pure statement whose result is unused and that fails for
    the arguments given (an index past the end of a list, a sub-grid outside the grid), and a float constant asked for under a name the spec
    only knows as an INT constant - every route returns the same path, or no route returns one"""
    S = tweezer_prog.harness_spec()
    kernels_src = {
        "unused failing index": ('@tweezer\ndef kz(xs: ilist.IList[float, Any], p0: float):\n    spare = xs[2]\n    g = grid.from_positions(xs, [0.0])\n    action.set_loc(g)\n    action.move(grid.shift(g, p0, 0.0))\n',
                                 "IL([1.0, 3.0]), 2.0", "xs0, x0", "xs0: ilist.IList[float, Any], x0: float"),
        "unused out-of-range view": ('@tweezer\ndef kz(xs: ilist.IList[float, Any], p0: float):\n    g = grid.from_positions(xs, [0.0])\n    spare = grid.sub_grid(g, [5], [0])\n    action.set_loc(g)\n    action.move(grid.shift(g, p0, 0.0))\n',
                                     "IL([1.0, 3.0]), 2.0", "xs0, x0", "xs0: ilist.IList[float, Any], x0: float"),
        "float constant known only as an int constant": ('@tweezer\ndef kz(xs: ilist.IList[float, Any], p0: float):\n    g = grid.from_positions(xs, [0.0])\n    action.set_loc(g)\n'
                                                         '    action.move(grid.shift(g, p0, spec.get_float_constant(constant_id="rows")))\n', "IL([1.0, 3.0]), 2.0", "xs0, x0", "xs0: ilist.IList[float, Any], x0: float"),
    }
    from kirin.dialects import ilist as _il
    IL = lambda l: _il.IList(l)
    n = 0
    for kname, (ksrc, consts, params_call, params_sig) in kernels_src.items():
        outcomes = {}
        try:
            kz = kernels.define(ksrc)["kz"]
        except Exception as e:
            ctx.hist("route agreement", f"{kname}: the kernel is refused at definition ({type(e).__name__})")
            continue
        for rname, dec, plain, byparam in ROUTES:
            call = f"f({params_call})" if byparam is True else "f(XS, 2.0)" if byparam is False else "f(XS, x0)"
            sig = params_sig if byparam is True else "" if byparam is False else "x0: float"
            args = (IL([1.0, 3.0]), 2.0) if byparam is True else () if byparam is False else (2.0,)
            src = f"@move{dec}\ndef main({sig}):\n    f = schedule.device_fn(kz, [0, 1], [0])\n    {call}\n    schedule.reverse(f)(p0=2.0, xs=XS)\n"
            ctx.evaluations += 1
            n += 1
            try:
                m = kernels.define(src, S=S, kz=kz, XS=IL([1.0, 3.0]))["main"]
                st, evs, extra = events.run_events(m, args, S, plain=plain)
                outcomes[rname] = "paths: " + " | ".join(pos_text(tc.abstract_path(e[1].path)) for e in evs if e[0] == "play") if st == "ok" else "no path"
            except Exception as e:
                outcomes[rname] = "no path"
        ctx.hist("route agreement", f"{kname}: {'all routes: ' + next(iter(outcomes.values()))[:40] if len(set(outcomes.values())) == 1 else 'ROUTES DIFFER'}")
        if len(set(outcomes.values())) != 1:
            a, b = sorted(outcomes.items(), key=lambda kv: kv[1])[0], sorted(outcomes.items(), key=lambda kv: kv[1])[-1]
            ctx.fail({"kind": "routes-disagree", "kernel": kname}, {"route_agreement": True, "kernel": kname},
                     f"device kernel with {kname}: route `{a[0]}` gives {a[1][:90]} while route `{b[0]}` gives {b[1][:90]}")
        else:
            ctx.nt(("route-agreement", kname))
    ctx.count("kernels on which all routes must answer alike (unused failing statements, a float constant known only as an int) x routes", n)


def _visualized(m, args, S):
    """the paths the library's PathVisualizer (a spec-carrying interpreter) hands to its renderer"""
    from vcommon import stubs
    stubs.install_matplotlib_stubs()
    from bloqade.shuttle.visualizer import PathVisualizer
    from bloqade.shuttle.visualizer.renderers.interface import RendererInterface

    class Rec(RendererInterface):
        def __init__(self): self.paths = []
        def render_traps(self, traps, zone_id): pass
        def render_path(self, pth): self.paths.append(pth)
        def set_title(self, title): pass
        def show(self): pass
        def clear_paths(self): pass
    rec = Rec()
    PathVisualizer(m.dialects, arch_spec=S, renderer=rec).run(m, tuple(args), {})
    return rec.paths


BRANCH_SRC = """
@move{DEC}
def main(c: bool{PARAMS}):
    if c:
        f = {A}
    else:
        f = {B}
    f({ARG})
"""


def branch_selected_cases(ctx, S):
    """the called device function comes out of a branch on a RUN-TIME condition: same kernel with other tones, forward against reversed,
    two kernels; constant and run-time operands; the path and its tones are those of the device function the run selects, on every route"""
    ksrc = ('@tweezer\ndef ka(p0: float):\n    g = grid.from_positions([p0, p0 + 2.0, p0 + 5.0], [0.0, 1.0, 3.0])\n    action.set_loc(g)\n'
            '    action.turn_on(action.ALL, [0])\n    action.move(grid.shift(g, 1.0, p0))\n    action.turn_off(action.ALL, [0])\n'
            '@tweezer\ndef kb(p0: float):\n    g = grid.from_positions([p0, p0 + 2.0, p0 + 5.0], [0.0, 1.0, 3.0])\n    action.set_loc(g)\n'
            '    action.turn_on([0], action.ALL)\n    action.move(grid.shift(g, p0, 2.0))\n')
    ns = kernels.define(ksrc)
    from props.c02 import _rev_abs
    pairs = [("same kernel, other tones", "schedule.device_fn(ka, [0, 1, 2], [0, 1, 2])", "schedule.device_fn(ka, [0, 2, 4], [1, 3, 5])"),
             ("same kernel, other y tones only", "schedule.device_fn(ka, [0, 1, 2], [0, 1, 2])", "schedule.device_fn(ka, [0, 1, 2], [0, 1, 3])"),
             ("forward against reversed", "schedule.device_fn(ka, [0, 1, 2], [0, 1, 2])", "schedule.reverse(schedule.device_fn(ka, [0, 1, 2], [0, 1, 2]))"),
             ("reversed with other tones", "schedule.reverse(schedule.device_fn(ka, [0, 1, 2], [0, 1, 2]))", "schedule.reverse(schedule.device_fn(ka, [0, 1, 3], [0, 1, 2]))"),
             ("two kernels, same tones", "schedule.device_fn(ka, [0, 1, 2], [0, 1, 2])", "schedule.device_fn(kb, [0, 1, 2], [0, 1, 2])")]
    n = 0

    def describe(expr):
        import re
        rev = expr.startswith("schedule.reverse(")
        kname = "ka" if "(ka," in expr else "kb"
        xt, yt = [eval(t) for t in re.findall(r"\[[0-9, ]*\]", expr)]
        p = tc.abstract_path(tc.run_impl(ns[kname], (2.0,), S)[1])
        return (xt, yt, pos_text(_rev_abs(p) if rev else p))
    for label, A, B in pairs:
        for c in (True, False):
            want = describe(A if c else B)
            for dec, plain, byparam in (("(arch_spec=S)", True, False), ("(arch_spec=S)", True, True), ("(arch_spec=S, fold=False)", True, False), ("", False, False),
                                       ("(fold=False)", False, True), ("(arch_spec=S, aggressive=True)", True, False)):
                src = BRANCH_SRC.replace("{DEC}", dec).replace("{PARAMS}", ", x0: float" if byparam else "").replace("{A}", A).replace("{B}", B).replace("{ARG}", "x0" if byparam else "2.0")
                rep = {"branch_src": src, "c": c, "plain": plain, "byparam": byparam, "pair": label}
                ctx.evaluations += 1
                n += 1
                try:
                    m = kernels.define(src, S=S, **{k: ns[k] for k in ("ka", "kb")})["main"]
                    st, evs, extra = events.run_events(m, (c, 2.0) if byparam else (c,), S, plain=plain)
                except Exception as e:
                    st, evs, extra = "err", [], f"{type(e).__name__}: {e}"
                if st != "ok" or len(evs) != 1 or evs[0][0] != "play":
                    ctx.fail({"kind": "no-path", "branch_selected": label, "decorator": dec}, rep, f"@move{dec}, device function selected by a run-time branch ({label}): no path played: {str(extra)[:120]}")
                    continue
                pv = evs[0][1]
                got = (list(pv.x_tones), list(pv.y_tones), pos_text(tc.abstract_path(pv.path)))
                if got != want:
                    what = "tones" if got[:2] != want[:2] else "path"
                    ctx.fail({"kind": "wrong-path", "branch_selected": label, "decorator": dec, "differs_in": what}, rep,
                             f"@move{dec} ({'run-time' if byparam else 'constant'} operand), device function selected by a run-time branch ({label}), c={c}: "
                             f"played {what} {str(got[:2] if what == 'tones' else got[2])[:100]} but the selected device function has {str(want[:2] if what == 'tones' else want[2])[:100]}")
                else:
                    ctx.nt(("branch-selected", label, c, dec, byparam))
    # the ARGUMENT of the call comes out of a run-time branch: a zone, or a masked copy of the very same zone
    gsrc = ('@tweezer\ndef kg(g: grid.Grid[Any, Any], dx: float):\n    action.set_loc(g)\n    action.turn_on(action.ALL, action.ALL)\n    action.move(grid.shift(g, dx, 0.0))\n')
    kg = kernels.define(gsrc)["kg"]
    from bloqade.shuttle.dialects.filled.types import FilledGrid
    zone = S.layout.static_traps["traps"]
    masked = FilledGrid.vacate(zone, [(0, 0), (1, 2)])
    for c in (True, False):
        sel = masked if c else zone
        want = pos_text(tc.abstract_path(tc.run_impl(kg, (sel, 1.5), S)[1]))
        for dec, plain in (("(arch_spec=S)", True), ("(arch_spec=S, fold=False)", True), ("", False), ("(arch_spec=S, aggressive=True)", True)):
            src = (f"@move{dec}\ndef main(c: bool):\n    z = spec.get_static_trap(zone_id=\"traps\")\n    if c:\n        g = filled.vacate(z, [(0, 0), (1, 2)])\n    else:\n        g = z\n"
                   "    f = schedule.device_fn(kg, [0, 1, 2, 3], [0, 1, 2])\n    f(g, 1.5)\n")
            rep = {"branch_src": src, "c": c, "plain": plain, "pair": "argument: a zone or its masked copy"}
            ctx.evaluations += 1
            n += 1
            try:
                m = kernels.define(src, S=S, kg=kg)["main"]
                st, evs, extra = events.run_events(m, (c,), S, plain=plain)
            except Exception as e:
                st, evs, extra = "err", [], f"{type(e).__name__}: {e}"
            got = pos_text(tc.abstract_path(evs[0][1].path)) if st == "ok" and len(evs) == 1 and evs[0][0] == "play" else "no path: " + str(extra)[:80]
            if got != want:
                ctx.fail({"kind": "wrong-path", "branch_selected": "argument: a zone or its masked copy", "decorator": dec}, rep,
                         f"@move{dec}, the grid argument of the call selected by a run-time branch (the zone, or the zone with masked sites), c={c}: played {got[:110]} but the selected grid gives {want[:110]}")
            else:
                ctx.nt(("branch-selected-argument", c, dec))
    ctx.count("device function selected by a run-time branch x 6 routes", n)


def outcome(st, evs):
    return "path" if st == "ok" and len(evs) == 1 and evs[0][0] == "play" else ("raise" if st == "err" else "other")


def no_path_cases(ctx, S, ns):
    from kirin.dialects import py
    from bloqade.shuttle.dialects import path
    table = {}
    # (1) no spec available at all: plain interpreter on an unstamped call
    m, (st, evs, extra), src = run_call(S, ns, 2, "f(1.0, 2.0)", "", True)
    table["no spec: plain interpreter"] = outcome(st, evs)
    m, (st, evs, extra), src = run_call(S, ns, 2, "f(1.0, 2.0)", "(fold=True)", True)
    table["no spec: after fold, plain interpreter"] = outcome(st, evs)
    gens = [s for s in m.callable_region.walk() if isinstance(s, path.Gen)]
    table["no spec: fold leaves the call"] = "unfolded" if gens else "folded"
    # (2) the kernel itself fails
    for rname, dec, plain, byparam in ROUTES:
        try:
            if byparam:
                m, (st, evs, extra), src = run_call(S, ns, "2f", "f(x, y)", dec, plain, params="x: float, y: float", args=(1.0, 2.0))
            else:
                m, (st, evs, extra), src = run_call(S, ns, "2f", "f(1.0, 2.0)", dec, plain)
            table[f"failing kernel: {rname}"] = outcome(st, evs)
        except Exception as e:
            table[f"failing kernel: {rname}"] = "raise-at-compile-time"
    # (3) the callee is not a device function: replace the operand in the compiled IR
    for rname, dec, plain, _ in ROUTES[1:3]:
        m, _, src = run_call(S, ns, 2, "f(x, y)", dec, plain, params="x: float, y: float", args=(1.0, 2.0))
        for s in list(m.callable_region.walk()):
            if isinstance(s, path.Gen):
                c = py.Constant(42)
                c.insert_before(s)
                s.device_task.replace_by(c.result) if False else s.args[0].replace_by(c.result) if False else None
                new = path.Gen(c.result, tuple(s.inputs), kwargs=s.kwargs, arch_spec=s.arch_spec)
                new.insert_before(s)
                s.result.replace_by(new.result)
                s.delete()
        st, evs, extra = events.run_events(m, (1.0, 2.0), S, plain=plain)
        table[f"not a device function: {rname}"] = outcome(st, evs)
    # (3b) the device function wraps a kernel that is not a tweezer kernel (a plain @move helper handed to device_fn by mistake)
    helper = kernels.define("@move\ndef not_tweezer(a: float, b: float):\n    g = grid.from_positions([a], [b])\n    return grid.shift(g, 1.0, 0.0)\n")["not_tweezer"]
    for rname, dec, plain, byparam in ROUTES:
        call = "f(x, y)" if byparam else "f(1.0, 2.0)"
        src2 = (f"@move{dec}\ndef main({'x: float, y: float' if byparam else ''}):\n    f = schedule.device_fn(not_tweezer, [0], [0])\n    {call}\n")
        try:
            m2 = kernels.define(src2, S=S, not_tweezer=helper)["main"]
            st, evs, extra = events.run_events(m2, (1.0, 2.0) if byparam else (), S, plain=plain)
            table[f"device function over a non-tweezer kernel: {rname}"] = outcome(st, evs)
        except Exception as e:
            table[f"device function over a non-tweezer kernel: {rname}"] = "raise-at-compile-time"
    # (4) a keyword is missing
    for rname, dec, plain, byparam in ROUTES:
        try:
            if byparam:
                m, (st, evs, extra), src = run_call(S, ns, 3, "f(x, p2=y)", dec, plain, params="x: float, y: float", args=(1.0, 3.0))
            else:
                m, (st, evs, extra), src = run_call(S, ns, 3, "f(1.0, p2=3.0)", dec, plain)
            table[f"missing keyword: {rname}"] = outcome(st, evs)
        except Exception as e:
            table[f"missing keyword: {rname}"] = "raise-at-compile-time"
    # (5) non-constant operands: folding must leave the call; run time gives the same path
    m, (st, evs, extra), src = run_call(S, ns, 2, "f(x, p1=y)", "(arch_spec=S)", True, params="x: float, y: float", args=(1.0, 2.0))
    gens = [s for s in m.callable_region.walk() if isinstance(s, path.Gen)]
    table["non-constant operands: fold"] = "unfolded" if gens else "folded"
    table["non-constant operands: run"] = outcome(st, evs)
    if st == "ok" and evs:
        if args_from_path(tc.abstract_path(evs[0][1].path), 2, False) != [1, 2]:
            ctx.fail({"kind": "wrong-path", "route": "non-constant operands"}, {"src": src}, "non-constant operands: wrong argument order")
    ctx.extra["no_path_table"] = table
    for k, v in table.items():
        ctx.evaluations += 1
        bad = (v in ("path", "folded") and not k.startswith("non-constant operands: run")) or (k == "non-constant operands: run" and v != "path")
        if bad:
            ctx.fail({"kind": "path-where-none-possible", "case": k, "outcome": v}, {"case": k}, f"{k}: outcome {v}")


def replay(data):
    if data["input"].get("route_agreement"):
        class C:
            def __init__(s): s.fails, s.evaluations = [], 0
            def fail(s, sig, rep, what): s.fails.append(what)
            def nt(s, *a): pass
            def count(s, *a): pass
            def hist(s, *a): pass
        c = C()
        route_agreement_cases(c)
        return bool(c.fails), (c.fails or ["all routes answer alike"])[0][:200]
    if data["input"].get("helper_subroutines"):
        class C:
            def __init__(s): s.fails, s.evaluations = [], 0
            def fail(s, sig, rep, what): s.fails.append(what)
            def nt(s, *a): pass
            def count(s, *a): pass
        c = C()
        helper_subroutine_cases(c)
        return bool(c.fails), (c.fails or ["every play is the path of its own kernel in its own direction"])[0][:200]
    return True, "re-run bin/check C05 (inputs are enumerated): " + str(data.get("what"))
