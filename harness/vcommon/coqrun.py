"""Driving coqc: build the development, re-check a property file and read its
Print Assumptions output, evaluate generated case files with vm_compute."""
import fcntl
import os
import re
import shutil
import subprocess
import time
from concurrent.futures import ThreadPoolExecutor

from .paths import BUILD, COQ

FORBIDDEN = re.compile(
    r"\b(Admitted|admit|Axiom|Axioms|Parameter|Parameters|Conjecture|Conjectures|"
    r"Admit Obligations|bypass_check|native_compute)\b|Unset\s+Guard|Unset\s+Positivity|"
    r"Unset\s+Universe|type-in-type|impredicative-set"
)
SECTION_ONLY = re.compile(r"^\s*(Variable|Variables|Hypothesis|Hypotheses|Context)\b")


def _strip_comments(src):
    out, depth, i = [], 0, 0
    while i < len(src):
        if src.startswith("(*", i):
            depth += 1
            i += 2
        elif src.startswith("*)", i) and depth:
            depth -= 1
            i += 2
        else:
            if depth == 0:
                out.append(src[i])
            elif src[i] == "\n":
                out.append("\n")
            i += 1
    return "".join(out)


def grep_gate(root=COQ):
    """Fail-closed scan of every .v file of the development."""
    problems = []
    for d, _, fs in os.walk(root):
        for f in fs:
            if not f.endswith(".v"):
                continue
            p = os.path.join(d, f)
            src = _strip_comments(open(p).read())
            depth = 0
            for n, line in enumerate(src.splitlines(), 1):
                if re.match(r"^\s*Section\b", line):
                    depth += 1
                if FORBIDDEN.search(line):
                    problems.append(f"{p}:{n}: {line.strip()}")
                if SECTION_ONLY.match(line) and depth == 0:
                    problems.append(f"{p}:{n}: outside section: {line.strip()}")
                if re.match(r"^\s*End\b", line) and depth:
                    depth -= 1
    for f in ("_CoqProject",):
        txt = open(os.path.join(root, f)).read()
        if FORBIDDEN.search(txt):
            problems.append(f"{f}: forbidden flag")
    return problems


class Lock:
    def __init__(self, path):
        self.path = path

    def __enter__(self):
        os.makedirs(os.path.dirname(self.path), exist_ok=True)
        self.f = open(self.path, "w")
        fcntl.flock(self.f, fcntl.LOCK_EX)
        return self

    def __exit__(self, *a):
        fcntl.flock(self.f, fcntl.LOCK_UN)
        self.f.close()


def make(clean=False, jobs=16, timeout=1500):
    """Full .vo build of /verif/coq (incremental unless clean)."""
    with Lock(os.path.join(COQ, ".lock")):
        t0 = time.time()
        if clean and os.path.exists(os.path.join(COQ, "Makefile")):
            subprocess.run(["make", "-C", COQ, "clean"], capture_output=True, timeout=300)
        r = subprocess.run(
            ["coq_makefile", "-f", "_CoqProject", "-o", "Makefile"],
            cwd=COQ, capture_output=True, text=True, timeout=120,
        )
        if r.returncode != 0:
            return False, r.stdout + r.stderr, time.time() - t0
        try:
            r = subprocess.run(
                ["make", "-C", COQ, f"-j{jobs}"], capture_output=True, text=True, timeout=timeout
            )
        except subprocess.TimeoutExpired as e:
            return False, f"make timed out after {timeout}s", time.time() - t0
        return r.returncode == 0, r.stdout + r.stderr, time.time() - t0


def clean_rebuild_and_chk(pid, timeout=1500):
    """Thorough tier: copy the .v sources to a scratch dir under /verif/build, build from
    clean, run the independent checker coqchk -o on Props/<pid>.vo; returns (ok, summary, secs)."""
    import shutil
    t0 = time.time()
    d = os.path.join(BUILD, f"clean_{pid}")
    shutil.rmtree(d, ignore_errors=True)
    os.makedirs(d)
    try:
        for root, dirs, files in os.walk(COQ):
            rel = os.path.relpath(root, COQ)
            for f in files:
                if f.endswith(".v") or f == "_CoqProject":
                    os.makedirs(os.path.join(d, rel), exist_ok=True)
                    shutil.copy(os.path.join(root, f), os.path.join(d, rel, f))
        r = subprocess.run("coq_makefile -f _CoqProject -o Makefile && make -j16", shell=True, cwd=d,
                           capture_output=True, text=True, timeout=timeout)
        if r.returncode != 0:
            return False, "clean build failed: " + (r.stdout + r.stderr)[-1200:], time.time() - t0
        r = subprocess.run(["coqchk", "-o", "-R", ".", "BS", f"BS.Props.{pid}"], cwd=d,
                           capture_output=True, text=True, timeout=timeout)
        out = r.stdout + r.stderr
        if r.returncode != 0 or "Modules were successfully checked" not in out:
            return False, "coqchk failed: " + out[-1200:], time.time() - t0
        summ = out[out.find("CONTEXT SUMMARY"):]
        summ = " ".join(summ.split())
        return True, summ, time.time() - t0
    except subprocess.TimeoutExpired:
        return False, "timeout", time.time() - t0
    finally:
        shutil.rmtree(d, ignore_errors=True)


def check_props(pid, timeout=600):
    """Recompile Props/<pid>.v unconditionally; return {theorem: assumptions-text}
    plus ok flag and raw log.  'Closed under the global context' is the target."""
    src_path = os.path.join(COQ, "Props", f"{pid}.v")
    src = _strip_comments(open(src_path).read())
    wanted = re.findall(r"Print Assumptions\s+([A-Za-z0-9_'.]+)\s*\.", src)
    theorems = re.findall(r"^\s*(?:Theorem|Corollary)\s+([A-Za-z0-9_']+)", src, re.M)
    with Lock(os.path.join(COQ, ".lock")):
        try:
            r = subprocess.run(
                ["coqc", "-R", COQ, "BS", src_path], capture_output=True, text=True,
                timeout=timeout, cwd=COQ,
            )
        except subprocess.TimeoutExpired:
            return False, {}, theorems, wanted, "coqc timed out"
    out = r.stdout
    if r.returncode != 0:
        return False, {}, theorems, wanted, r.stdout + r.stderr
    blocks = re.split(r"(?m)^(?=Closed under the global context|Axioms:)", out)
    blocks = [b for b in blocks if b.startswith("Closed under") or b.startswith("Axioms:")]
    res = {}
    for name, b in zip(wanted, blocks):
        res[name] = b.strip()
    ok = len(blocks) == len(wanted)
    return ok, res, theorems, wanted, r.stdout + r.stderr


def builddir(pid, wipe=False):
    d = os.path.join(BUILD, pid)
    if wipe and os.path.isdir(d):
        shutil.rmtree(d)
    os.makedirs(d, exist_ok=True)
    return d


HEADER = """From Coq Require Import ZArith QArith List String Bool Ascii.
Import ListNotations.
Set Printing Width 2000000.
Set Printing Depth 100000000.
"""


def coqc_file(path, timeout=900, extra_R=()):
    cmd = ["coqc", "-R", COQ, "BS"]
    for d, name in extra_R:
        cmd += ["-R", d, name]
    cmd.append(path)
    import shlex
    cmd = ["bash", "-c", "ulimit -s unlimited 2>/dev/null || ulimit -s 1000000 2>/dev/null; exec " + " ".join(shlex.quote(c) for c in cmd)]
    try:
        r = subprocess.run(cmd, capture_output=True, text=True, timeout=timeout,
                           cwd=os.path.dirname(path))
    except subprocess.TimeoutExpired:
        return 124, "", f"coqc timed out after {timeout}s on {path}"
    return r.returncode, r.stdout, r.stderr


_STR_RE = re.compile(r'^\s*= "(.*)"\s*\n\s*: string\s*$', re.S | re.M)


def parse_string_evals(out):
    """Return the string values printed by `Eval vm_compute in (<string>)` commands."""
    vals = []
    # outputs are separated by lines of the form '     : string'
    parts = re.split(r"\n\s*: string\s*\n?", out)
    for p in parts:
        i = p.find('= "')
        if i < 0:
            continue
        body = p[i + 3:].rstrip()
        if body.endswith("%string"):
            body = body[:-7]
        if not body.endswith('"'):
            continue
        vals.append(body[:-1].replace('""', '"'))
    return vals


def eval_lines(bdir, name, body, timeout=900, extra_R=()):
    """Write a case file (HEADER + body), compile it, return (ok, list of list-of-lines, log).
    The body must end in one or more `Eval vm_compute in (lines [...])`."""
    path = os.path.join(bdir, name + ".v")
    with open(path, "w") as f:
        f.write(HEADER + body)
    rc, out, err = coqc_file(path, timeout=timeout, extra_R=extra_R)
    if rc != 0:
        return False, [], out + err
    vals = parse_string_evals(out)
    return True, [v.split("\n") if v != "" else [] for v in vals], out[:2000] + err


def eval_many(bdir, named_bodies, jobs=16, timeout=900, extra_R=()):
    """named_bodies: list of (name, body).  Runs them `jobs` wide."""
    with ThreadPoolExecutor(max_workers=jobs) as ex:
        futs = [ex.submit(eval_lines, bdir, n, b, timeout, extra_R) for n, b in named_bodies]
        return [f.result() for f in futs]


def compile_lemma_file(bdir, name, body, timeout=900, extra_R=()):
    """Compile a file of table lemmas (must succeed); returns (ok, log)."""
    path = os.path.join(bdir, name + ".v")
    with open(path, "w") as f:
        f.write(body)
    rc, out, err = coqc_file(path, timeout=timeout, extra_R=extra_R)
    return rc == 0, out + err


# ---- encoders to Coq syntax ----

def cstr(s):
    return '"' + s.replace('"', '""') + '"%string'


def cZ(n):
    return f"({int(n)})%Z"


def cN(n):
    return f"{int(n)}%N"


def cnat(n):
    assert 0 <= n < 5000, n
    return f"{int(n)}%nat"


def cbool(b):
    return "true" if b else "false"


def clist(items):
    return "[" + "; ".join(items) + "]"


def copt(x, f=lambda v: v):
    return "None" if x is None else f"(Some {f(x)})"


def cQ(fr):
    from fractions import Fraction
    fr = Fraction(fr)
    return f"(({fr.numerator})%Z # {fr.denominator})"
