"""matplotlib is not installed; bloqade.shuttle.visualizer imports it at module level.  Minimal
stand-in modules are installed before the import (only names, never behaviour: the matplotlib
renderer itself is not exercised)."""
import sys
import types


def install_matplotlib_stubs():
    if "matplotlib" in sys.modules and not getattr(sys.modules["matplotlib"], "__verif_stub__", False):
        return
    def mod(name):
        m = types.ModuleType(name)
        m.__verif_stub__ = True
        sys.modules[name] = m
        return m
    mpl = mod("matplotlib")
    for sub, names in {"pyplot": [], "artist": ["Artist"], "axes": ["Axes"], "widgets": ["Button"], "patches": ["Rectangle", "Patch"],
                       "figure": ["Figure"], "collections": ["PathCollection"], "lines": ["Line2D"], "text": ["Text"],
                       "animation": ["FuncAnimation"], "colors": [], "cm": []}.items():
        m = mod("matplotlib." + sub)
        for n in names:
            setattr(m, n, type(n, (), {}))
        setattr(mpl, sub, m)
