"""matplotlib is not installed; bloqade.shuttle.visualizer imports it at module level.  Minimal
stand-in modules are installed before the import (only names, never behaviour: the matplotlib
renderer itself is not exercised)."""
import sys
import types


def install_matplotlib_stubs():
    if "matplotlib" in sys.modules and not getattr(sys.modules["matplotlib"], "__verif_stub__", False):
        return
    def mod(name):
        m = types.ModuleType(name)
        m.__verif_stub__ = True
        sys.modules[name] = m
        return m
    mpl = mod("matplotlib")
    for sub, names in {"pyplot": [], "artist": ["Artist"], "axes": ["Axes"], "widgets": ["Button"], "patches": ["Rectangle", "Patch"],
                       "figure": ["Figure"], "collections": ["PathCollection"], "lines": ["Line2D"], "text": ["Text"],
                       "animation": ["FuncAnimation"], "colors": [], "cm": []}.items():
        m = mod("matplotlib." + sub)
        for n in names:
            setattr(m, n, type(n, (), {}))
        setattr(mpl, sub, m)


class AnyMock:
    """stands in for pyplot / an Axes / a widget: every attribute is a callable that returns another AnyMock;
    the few calls whose results are unpacked return sequences of the right length"""

    def __getattr__(self, name):
        if name.startswith("__"):
            raise AttributeError(name)
        if name == "subplots":
            return lambda *a, **k: (AnyMock(), AnyMock())
        if name == "plot":
            return lambda *a, **k: [AnyMock()]
        if name == "get_cmap":
            return lambda *a, **k: (lambda p: (0.0, 0.0, 0.0, 1.0))
        return AnyMock()

    def __call__(self, *a, **k):
        return AnyMock()


def matplotlib_renderer():
    """the library's own MatplotlibRenderer running against mock pyplot objects (no window, show() returns at once)"""
    install_matplotlib_stubs()
    from bloqade.shuttle.visualizer.renderers import matplotlib as R
    R.plt = AnyMock()
    R.Button = lambda *a, **k: AnyMock()
    R.MatplotlibRenderer.show = lambda self: None
    return R.MatplotlibRenderer(ax=AnyMock())
