"""A prelude run at the start of every check, in the same process, BEFORE the check's own cases: it uses the package the way an earlier
part of a user's session might have - other interpreters on the same dialect groups, other specs, other tone lists for the same kernels,
failing traces, analyses, builders with other arguments.  Nothing here is judged; it only makes sure that the cases that ARE judged do not
run in a freshly imported package.  A property that quantifies over histories ("whatever was compiled / traced / analysed before") is
otherwise only ever exercised on the one history a check happens to produce."""


def exercise():
    done = []

    def step(name, f):
        try:
            f()
            done.append(name)
        except Exception as e:      # noise never fails a check
            done.append(f"{name}: {type(e).__name__}")
    from gen import kernels, move_prog, tweezer_prog
    S = tweezer_prog.harness_spec()

    def interpreters_before_any_tracer():
        # spec-carrying interpreters that are not tracers, on the tweezer and the move group, used before any TraceInterpreter exists
        from bloqade.shuttle.arch import ArchSpecInterpreter
        from bloqade.shuttle.prelude import move, tweezer
        h = kernels.define('@tweezer\ndef helper(k: int):\n    return spec.get_int_constant(constant_id="rows") + k\n')["helper"]
        ArchSpecInterpreter(tweezer, arch_spec=S).run(h, (1,))
        m = kernels.define('@move\ndef helper(k: int):\n    return spec.get_float_constant(constant_id="pitch")\n')["helper"]
        ArchSpecInterpreter(move, arch_spec=S).run(m, (1,))
    step("interpreters before any tracer", interpreters_before_any_tracer)

    def visualizer_first():
        from vcommon import stubs
        stubs.install_matplotlib_stubs()
        from bloqade.shuttle.visualizer import PathVisualizer
        from bloqade.shuttle.visualizer.renderers.interface import RendererInterface

        class Quiet(RendererInterface):
            def render_traps(self, traps, zone_id): pass
            def render_path(self, pth): pass
            def set_title(self, title): pass
            def show(self): pass
            def clear_paths(self): pass
        m = kernels.define('@move\ndef main():\n    gate.global_rz(0.5)\n')["main"]
        PathVisualizer(m.dialects, arch_spec=S, renderer=Quiet()).run(m, (), {})
    step("a visualizer run", visualizer_first)

    def other_tones():
        # the standard tweezer kernels as device functions with the usual x tones and OTHER y tones (and the other way round), folded
        tw_src = "".join(f"@tweezer\ndef {n}{sig}:{body}\n" for n, (sig, body, _) in move_prog.TWEEZERS.items())
        ns = {k: v for k, v in kernels.define(tw_src).items() if k in move_prog.TWEEZERS}
        src = ("@move{DEC}\ndef main():\n    a = schedule.device_fn(k0, [0, 1], [7])\n    b = schedule.device_fn(k0, [4, 5], [0])\n"
               "    c = schedule.device_fn(k1, [0, 1], [3])\n    d = schedule.device_fn(k2, [0], [9])\n    e = schedule.reverse(schedule.device_fn(k0, [0, 1], [8]))\n"
               "    a(1.0, 2.0)\n    b(1.0, 2.0)\n    c(0.5, 0.5, 1)\n    d(0.0, 1.0)\n    e(2.0, 1.0)\n")
        from vcommon import events
        for dec, plain in (("", False), ("(arch_spec=S)", True)):
            m = kernels.define(src.replace("{DEC}", dec), S=S, **ns)["main"]
            events.run_events(m, (), S, plain=plain)
    step("device functions with other tone lists", other_tones)

    def failing_traces():
        from bloqade.shuttle.codegen.taskgen import TraceInterpreter
        bad = kernels.define("@tweezer\ndef main(c: bool):\n    g = grid.from_positions([0.0, 1.0], [0.0])\n    action.set_loc(g)\n    action.turn_on(action.ALL, [0])\n"
                             "    action.move(grid.from_positions([0.0], [0.0, 1.0]))\n")["main"]
        early = kernels.define("@tweezer\ndef main(c: bool):\n    action.turn_on([0], [0])\n")["main"]
        guard = kernels.define("@tweezer\ndef main(c: bool):\n    action.set_loc(grid.from_positions([0.0], [0.0]))\n    assert c\n")["main"]
        for k in (bad, early, guard):
            try:
                TraceInterpreter(S).run_trace(k, (False,), {})
            except Exception:
                pass
        # the same failure reached through a device call on the spec-carrying route
        from vcommon import events
        m = kernels.define("@move\ndef main(c: bool):\n    f = schedule.device_fn(bad, [0, 1], [0])\n    f(c)\n", bad=bad)["main"]
        events.run_events(m, (False,), S)
    step("failing traces", failing_traces)

    def analyses():
        from bloqade.shuttle.analysis.runtime import RuntimeAnalysis
        from bloqade.shuttle.analysis.zone import ZoneAnalysis
        from bloqade.shuttle.passes.hint_zone import HintZone
        from bloqade.shuttle.prelude import move
        m = kernels.define('@move\ndef main(c: bool):\n    z = spec.get_static_trap(zone_id="traps")\n    a = z[0:2, 0:2]\n    b = a[0:1, :]\n'
                           '    d = grid.sub_grid(b, [0], [0, 1])\n    e = d[0, 0:1]\n    gate.local_rz(0.5, e)\n    gate.local_rz(0.5, b)\n')["main"]
        HintZone(m.dialects, arch_spec=S)(m)
        ZoneAnalysis(m.dialects, arch_spec=S).run_analysis(m)
        RuntimeAnalysis(move).has_quantum_runtime(m)
    step("zone and runtime analyses", analyses)

    def other_specs():
        # another spec with the names of the harness spec, injected into kernels that share helpers, and the builders with other arguments
        from bloqade.geometry.dialects.grid import Grid
        from bloqade.shuttle.arch import ArchSpec, Layout
        from bloqade.shuttle.stdlib.layouts import single_col_zone, two_col_zone
        lay = Layout({"traps": Grid.from_positions([90.0, 91.0, 92.0, 93.0], [70.0, 71.0, 72.0]), "aux": Grid.from_positions([60.0, 61.0, 62.0], [1.0, 2.0, 3.0, 4.0])},
                     {"traps"}, {"traps"}, {"aux"}, special_grid={"park": Grid.from_positions([-40.0, -20.0], [5.0, 15.0])})
        O = ArchSpec(layout=lay, float_constants={"pitch": 9.0, "dup": 7.5, "origin": 0.0}, int_constants={"rows": 5, "dup": 6, "zero": 0})
        src = ('@move\ndef zone():\n    return spec.get_static_trap(zone_id="traps")\n\n@move\ndef outer():\n    return zone()\n\n'
               '@move(arch_spec=S)\ndef main():\n    return (outer(), spec.get_float_constant(constant_id="pitch"))\n')
        kernels.define(src, S=O)["main"]()
        for a in ((5, 4, 3.0), (2, 7, 0.5)):
            single_col_zone.get_spec(*a)
            two_col_zone.get_spec(a[0], a[1], a[2] + 7.0, 1.5)
        hash(O), O == S, O.layout.bounding_box()
    step("another spec and other builder calls", other_specs)
    return done
