import os

VERIF = os.path.dirname(os.path.dirname(os.path.dirname(os.path.abspath(__file__))))
COQ = os.path.join(VERIF, "coq")
# bin/check (the registered command) clears VERIF_OUT / VERIF_REPO: it always reads /repo and writes under /verif.
# bin/check-at (seed testing only) points them at a scratch checkout and a scratch output directory.
_OUT = os.environ.get("VERIF_OUT") or VERIF
BUILD = os.path.join(_OUT, "build")
EVIDENCE = os.path.join(_OUT, "evidence")
REPLAYS = os.path.join(_OUT, "replays")
KNOWN = os.path.join(VERIF, "known_findings.json")
REPO = os.environ.get("VERIF_REPO") or "/repo"
