import os

VERIF = os.path.dirname(os.path.dirname(os.path.dirname(os.path.abspath(__file__))))
COQ = os.path.join(VERIF, "coq")
BUILD = os.path.join(VERIF, "build")
EVIDENCE = os.path.join(VERIF, "evidence")
REPLAYS = os.path.join(VERIF, "replays")
KNOWN = os.path.join(VERIF, "known_findings.json")
REPO = os.environ.get("VERIF_REPO", "/repo")
