"""Event-log executor for compiled @move kernels.  No source hooks: a subclass of
ArchSpecInterpreter with a private key; method tables for the device-visible statements are
registered from here onto the dialect objects under that key."""
from dataclasses import dataclass, field
from typing import ClassVar

_registered = False


def _register():
    global _registered
    if _registered:
        return
    _registered = True
    from kirin import interp
    from bloqade.shuttle.dialects import gate, init, measure, path

    @dataclass
    class Group:
        kind: str
        members: tuple

    @path.dialect.register(key="verif.events")
    class _P(interp.MethodTable):
        @interp.impl(path.Play)
        def play(self, it, frame, stmt):
            it.events.append(("play", frame.get(stmt.path)))
            return ()

        @interp.impl(path.Parallel)
        def parallel(self, it, frame, stmt):
            return (Group("parallel", tuple(frame.get_values(stmt.paths))),)

        @interp.impl(path.Auto)
        def auto(self, it, frame, stmt):
            return (Group("auto", tuple(frame.get_values(stmt.paths))),)

    @gate.dialect.register(key="verif.events")
    class _G(interp.MethodTable):
        @interp.impl(gate.TopHatCZ)
        def cz(self, it, frame, stmt):
            it.events.append(("cz", frame.get(stmt.zone), stmt.upper_buffer, stmt.lower_buffer))
            return ()

        @interp.impl(gate.LocalR)
        def lr(self, it, frame, stmt):
            it.events.append(("local_r", frame.get(stmt.axis_angle), frame.get(stmt.rotation_angle), frame.get(stmt.zone)))
            return ()

        @interp.impl(gate.LocalRz)
        def lrz(self, it, frame, stmt):
            it.events.append(("local_rz", frame.get(stmt.rotation_angle), frame.get(stmt.zone)))
            return ()

        @interp.impl(gate.GlobalR)
        def gr(self, it, frame, stmt):
            it.events.append(("global_r", frame.get(stmt.axis_angle), frame.get(stmt.rotation_angle)))
            return ()

        @interp.impl(gate.GlobalRz)
        def grz(self, it, frame, stmt):
            it.events.append(("global_rz", frame.get(stmt.rotation_angle)))
            return ()

    @init.dialect.register(key="verif.events")
    class _I(interp.MethodTable):
        @interp.impl(init.Fill)
        def do_fill(self, it, frame, stmt):
            it.events.append(("fill", list(frame.get(stmt.locations))))
            return ()

    @measure.dialect.register(key="verif.events")
    class _M(interp.MethodTable):
        @interp.impl(measure.Measure)
        def do_measure(self, it, frame, stmt):
            gs = list(frame.get_values(stmt.grids))
            it.events.append(("measure", gs))
            return tuple(object() for _ in gs)

    globals()["Group"] = Group


def make_interp(arch_spec, dialects=None, plain=False):
    """plain=True: an interpreter with no spec at all (keys verif.events, main)"""
    _register()
    from bloqade.shuttle.arch import ArchSpecInterpreter
    from bloqade.shuttle.prelude import move
    if plain:
        from kirin.interp import Interpreter

        @dataclass
        class PlainEventInterp(Interpreter):
            keys: ClassVar[list] = ["verif.events", "main"]
            events: list = field(default_factory=list, kw_only=True)

        return PlainEventInterp(dialects or move)

    @dataclass
    class EventInterp(ArchSpecInterpreter):
        # the package's own key list for spec-carrying interpreters, with the event tables in front
        keys: ClassVar[list] = ["verif.events"] + [k for k in ArchSpecInterpreter.keys if k != "verif.events"]
        events: list = field(default_factory=list, kw_only=True)

    return EventInterp(dialects or move, arch_spec=arch_spec)


def run_events(method, args, arch_spec, kwargs=None, plain=False):
    """-> ('ok', events, result) | ('err', events_so_far, exc_text)"""
    it = make_interp(arch_spec, method.dialects, plain=plain)
    try:
        r = it.run(method, tuple(args), kwargs or {})
        return ("ok", it.events, r)
    except Exception as e:
        return ("err", it.events, type(e).__name__ + ": " + str(e)[:160])


# ---- canonical rendering of events (same syntax as Core/Events.v) ----
def path_value_text(pv, gt):
    from props import tracer_common as tc
    from bloqade.shuttle.dialects.path import Path
    if isinstance(pv, Path):
        xs = ",".join(str(int(v)) for v in pv.x_tones)
        ys = ",".join(str(int(v)) for v in pv.y_tones)
        return f"P([{xs}],[{ys}],{tc.path_text(tc.abstract_path(pv.path), gt)})"
    if type(pv).__name__ == "Group":
        return f"G({pv.kind},[" + ",".join(path_value_text(m, gt) for m in pv.members) + "])"
    return f"?{type(pv).__name__}"


def fnum(v):
    from fractions import Fraction
    if isinstance(v, bool) or not isinstance(v, (int, float)):
        return f"?{v!r}"
    fr = Fraction(v)
    return f"{fr.numerator}/{fr.denominator}"


def event_text(e, gt):
    k = e[0]
    if k == "play":
        return "play " + path_value_text(e[1], gt)
    if k == "fill":
        return "fill [" + ",".join(gt.show(g) for g in e[1]) + "]"
    if k == "measure":
        return "measure [" + ",".join(gt.show(g) for g in e[1]) + "]"
    if k == "cz":
        return f"cz {gt.show(e[1])} {fnum(e[2])} {fnum(e[3])}"
    if k == "local_r":
        return f"local_r {fnum(e[1])} {fnum(e[2])} {gt.show(e[3])}"
    if k == "local_rz":
        return f"local_rz {fnum(e[1])} {gt.show(e[2])}"
    if k == "global_r":
        return f"global_r {fnum(e[1])} {fnum(e[2])}"
    if k == "global_rz":
        return f"global_rz {fnum(e[1])}"
    return f"?{k}"


def events_text(evs, gt):
    return [event_text(e, gt) for e in evs]
