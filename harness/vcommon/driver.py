"""bin/check entry point: run one property's check, decide the verdict, write evidence."""
import hashlib
import importlib
import json
import os
import random
import sys
import time
import traceback

from . import coqrun
from .paths import EVIDENCE, KNOWN, REPLAYS, VERIF

TRUSTED_BASE = [
    "Coq 8.16.1 kernel (Debian build) incl. its bytecode VM (vm_compute); native_compute not used",
    "axioms: none - every theorem prints 'Closed under the global context' unless listed under coverage.axioms",
    "hand-written Gallina model of the anchored Python; tie = correspondence check of this run "
    "(model evaluated by coqc/vm_compute vs the implementation on the same inputs) + reflected tables",
    "Python harness: generators, encoders, exception mapping, textual comparison of rendered outputs",
    "kirin, bloqade.geometry and CPython are modelled/exercised, not verified",
    "no extraction (no Extract directives)",
]


def jdump(o):
    return json.dumps(o, sort_keys=True, default=str)


class Ctx:
    def __init__(self, pid, tier, seed):
        self.pid, self.tier, self.seed = pid, tier, seed
        self.rng = random.Random(seed * 1000003 + int(pid[1:]))
        self.quick = tier == "quick"
        self.bdir = coqrun.builddir(pid, wipe=True)
        self.obligations = []       # (name, ok, detail)
        self.corr = []              # (name, cases, mismatches[list of dict])
        self.failures = []          # dict(signature, replay, what)
        self.counts = {}
        self.hists = {}
        self.samples = []
        self.nontrivial = set()
        self.evaluations = 0
        self.rule = ""
        self.exhaustive = None
        self.assumptions = []
        self.explanation = ""
        self.axioms = {}
        self.extra = {}
        self.t0 = time.time()

    # -- recording --
    def obligation(self, name, ok, detail=""):
        self.obligations.append((name, bool(ok), detail))

    def correspondence(self, name, cases, mismatches):
        self.corr.append((name, cases, list(mismatches)))

    def fail(self, signature, replay, what):
        self.failures.append({"signature": signature, "replay": replay, "what": what})

    def count(self, key, n=1):
        self.counts[key] = self.counts.get(key, 0) + n

    def hist(self, name, key, n=1):
        h = self.hists.setdefault(name, {})
        h[str(key)] = h.get(str(key), 0) + n

    def sample(self, obj, limit=6):
        if len(self.samples) < limit:
            self.samples.append(obj)

    def nt(self, key):
        self.nontrivial.add(key if isinstance(key, (str, int, tuple)) else jdump(key))

    def pick(self, quick, thorough):
        return quick if self.quick else thorough

    def log(self, *a):
        print(f"[{self.pid} {time.time() - self.t0:6.1f}s]", *a, flush=True)


def load_known():
    if not os.path.exists(KNOWN):
        return []
    return json.load(open(KNOWN)).get("findings", [])


def sig_matches(entry_sig, sig):
    return all(sig.get(k) == v for k, v in entry_sig.items())


def base_obligations(ctx, clean):
    """Build the development, apply the grep gate, re-check Props/<pid>.v."""
    probs = coqrun.grep_gate()
    ctx.obligation("grep-gate(no Admitted/Axiom/Parameter/unsafe flags)", not probs, "; ".join(probs[:5]))
    ok, log, dt = coqrun.make(clean=False)
    ctx.extra["make_s"] = round(dt, 1)
    ctx.obligation("make coq/ (full .vo build)", ok, log[-1500:] if not ok else "")
    if not ok:
        return
    ok, res, theorems, wanted, log = coqrun.check_props(ctx.pid)
    if not ok:
        ctx.obligation(f"coqc Props/{ctx.pid}.v", False, log[-1500:])
        return
    missing = [t for t in theorems if t not in wanted]
    ctx.obligation(f"Props/{ctx.pid}.v: Print Assumptions under every theorem", not missing, ",".join(missing))
    for name in wanted:
        txt = res.get(name, "")
        closed = txt.startswith("Closed under the global context")
        if not closed:
            ctx.axioms[name] = txt
        ctx.obligation(f"theorem {name}", closed, txt if not closed else "")
    if clean:
        ok, summ, dt = coqrun.clean_rebuild_and_chk(ctx.pid)
        ctx.extra["coqchk"] = summ
        ctx.extra["clean_build_and_coqchk_s"] = round(dt, 1)
        no_axioms = ok and "Axioms: <none>" in summ and "type-in-type: <none>" in summ and "unsafe (co)fixpoints: <none>" in summ and "positivity is assumed: <none>" in summ
        ctx.obligation("from-clean rebuild in a scratch copy + coqchk -o: no axioms, no unsafe flags", no_axioms, summ[-800:] if not no_axioms else "")


def finish(ctx):
    known = load_known()
    lines, violations, known_hit = [], 0, {}
    import shutil
    shutil.rmtree(os.path.join(REPLAYS, ctx.pid), ignore_errors=True)
    os.makedirs(os.path.join(REPLAYS, ctx.pid), exist_ok=True)
    seen = set()
    for f in ctx.failures:
        entry = None
        for e in known:
            if e.get("property") == ctx.pid and e.get("status", "known") == "known" and sig_matches(e["signature"], f["signature"]):
                entry = e
                break
        if entry is not None:
            known_hit.setdefault(jdump(entry["signature"]), (entry, 0))
            ent, n = known_hit[jdump(entry["signature"])]
            known_hit[jdump(entry["signature"])] = (ent, n + 1)
            continue
        key = jdump(f["signature"])
        if key in seen:
            continue
        seen.add(key)
        violations += 1
        if violations > 8:
            continue
        h = hashlib.sha1(key.encode()).hexdigest()[:12]
        path = os.path.join(REPLAYS, ctx.pid, f"{h}.json")
        with open(path, "w") as fh:
            json.dump({"property": ctx.pid, "kind": "failing-input", "signature": f["signature"],
                       "what": f["what"], "input": f["replay"],
                       "replay_cmd": f"bin/check {ctx.pid} --replay {path}"}, fh, indent=1, default=str)
        lines.append(f"VIOLATION property={ctx.pid} replay={path}")
    for ent, n in known_hit.values():
        lines.append(f"KNOWN-FINDING: property={ctx.pid} {ent['what']} (instances this run: {n})")
    broken = [(n, d) for n, ok, d in ctx.obligations if not ok]
    mism = [(n, m) for n, c, ms in ctx.corr for m in ms]
    if violations == 0 and (broken or mism):
        path = os.path.join(REPLAYS, ctx.pid, "unchecked.json")
        with open(path, "w") as fh:
            json.dump({"property": ctx.pid, "kind": "unchecked-obligation",
                       "broken_obligations": [{"name": n, "detail": d} for n, d in broken],
                       "correspondence_mismatches": [{"check": n, "case": m} for n, m in mism[:20]],
                       "note": "the property is no longer shown to hold: the obligations / correspondences "
                               "named here do not check, and the search over the model and the implementation "
                               "found no input on which the property itself fails"}, fh, indent=1, default=str)
        lines.append(f"VIOLATION property={ctx.pid} replay={path} no-failing-input-found")
        violations += 1
    n_ob = len(ctx.obligations) + len(ctx.corr)
    n_ok = sum(1 for _, ok, _ in ctx.obligations if ok) + sum(1 for _, _, ms in ctx.corr if not ms)
    cov = {
        "obligations": n_ob,
        "discharged": n_ok,
        "obligation_list": [{"name": n, "ok": ok} for n, ok, _ in ctx.obligations]
                           + [{"name": "correspondence: " + n, "cases": c, "ok": not ms} for n, c, ms in ctx.corr],
        "checker_cmd": f"cd /verif && bin/check {ctx.pid} {ctx.tier}   (make -C coq; coqc -R coq BS coq/Props/{ctx.pid}.v; coqc on generated build/{ctx.pid}/*.v)",
        "trusted_base": TRUSTED_BASE,
        "axioms": ctx.axioms,
        "evaluations": ctx.evaluations,
        "distinct_nontrivial": len(ctx.nontrivial),
        "rule": ctx.rule,
        "samples": ctx.samples or ["(none recorded)"],
        "counts": ctx.counts,
        "histograms": ctx.hists,
        "explanation": ctx.explanation,
        "known_findings_hit": [e["what"] for e, _ in known_hit.values()],
    }
    if ctx.exhaustive is not None:
        cov["exhaustive"] = bool(ctx.exhaustive)
    cov.update(ctx.extra)
    ev = {"property_id": ctx.pid, "tier": ctx.tier, "seed": ctx.seed, "level": "proof",
          "coverage": cov, "assumptions": ctx.assumptions, "wall_s": round(time.time() - ctx.t0, 2),
          "violations": violations}
    os.makedirs(EVIDENCE, exist_ok=True)
    with open(os.path.join(EVIDENCE, f"{ctx.pid}.json"), "w") as fh:
        json.dump(ev, fh, indent=1, default=str)
    for n, d in broken:
        print(f"BROKEN obligation: {n}: {d[:600]}")
    for n, m in mism[:10]:
        print(f"MISMATCH {n}: {jdump(m)[:600]}")
    for l in lines:
        print(l)
    print(f"{ctx.pid} {ctx.tier}: obligations {n_ok}/{n_ob}, evaluations {ctx.evaluations}, "
          f"nontrivial {len(ctx.nontrivial)}, failures {len(ctx.failures)}, violations {violations}, "
          f"{time.time() - ctx.t0:.1f}s")
    return 1 if violations else 0


def main(argv):
    pid = argv[1]
    if len(argv) > 3 and argv[2] == "--replay":
        mod = importlib.import_module(f"props.{pid.lower()}")
        data = json.load(open(argv[3]))
        fails, detail = mod.replay(data)
        print(("FAILS: " if fails else "passes: ") + str(detail))
        return 1 if fails else 0
    tier = argv[2] if len(argv) > 2 else os.environ.get("VERIF_TIER", "quick")
    seed = int(os.environ.get("VERIF_SEED", "20260930"))
    ctx = Ctx(pid, tier, seed)
    # watchdog: a check never hangs - if the implementation (or the check) stops making progress, report and exit
    import threading
    limit = int(os.environ.get("VERIF_WATCHDOG_S", "3000" if tier != "thorough" else "21600"))

    def expired():
        try:
            ctx.obligation(f"check finishes within {limit} s", False, "watchdog expired: the implementation or the check did not terminate")
            finish(ctx)
        finally:
            os._exit(1)
    wd = threading.Timer(limit, expired)
    wd.daemon = True
    wd.start()
    try:
        base_obligations(ctx, clean=(tier == "thorough"))
        mod = importlib.import_module(f"props.{pid.lower()}")
        # the judged cases never run in a freshly imported package: see vcommon/noise.py
        from vcommon import noise
        ctx.extra["prelude_before_the_cases"] = noise.exercise()
        mod.run(ctx)
        broken = any(not ok for _, ok, _ in ctx.obligations) or any(ms for _, _, ms in ctx.corr)
        if broken and not ctx.failures and hasattr(mod, "search"):
            ctx.log("obligation or correspondence broken; extended search for a failing input")
            mod.search(ctx)
    except Exception:
        ctx.obligation("check driver ran to completion", False, traceback.format_exc()[-3000:])
    wd.cancel()
    return finish(ctx)


if __name__ == "__main__":
    sys.exit(main(sys.argv))
